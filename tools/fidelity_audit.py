#!/usr/bin/env python3
"""Fidelity audit of engine C (DESIGN C-4) -- a development aid, never part of a verdict.

For every (shape, placement) of the quick lattice the abstract evaluation is compared with what the REAL
generator does on a concrete instance of the same spec (symbols replaced by concrete text that satisfies the
path's assumptions): accepted/rejected must agree, and for accepted paths the skeleton with its placeholders
substituted must be, verbatim, the class the real generator writes.  A mismatch means the evaluator's model of
Python / of the stdlib is wrong for this tree.  Runs the repository's generator in subprocesses, in a scratch
directory under /tmp that is removed afterwards.

usage: tools/fidelity_audit.py [--repo /repo] [--limit N] [--families field,array,...] [--jobs 16]
"""
import argparse
import html
import json
import os
import re
import shutil
import subprocess
import sys
import tempfile
from concurrent.futures import ProcessPoolExecutor

sys.path.insert(0, os.path.dirname(os.path.dirname(os.path.abspath(__file__))))
sys.setrecursionlimit(10000)

from sa.genabs import lattice  # noqa: E402
from sa.genabs.values import Elem, Sym, Tmpl, as_tmpl, simplify  # noqa: E402


def snake(name):
    out = ""
    for i, c in enumerate(name):
        if i > 0 and c.isupper() and ((i + 1 < len(name) and not name[i + 1].isupper()) or name[i - 1].islower()):
            out += "_"
        out += c.lower()
    return out


def pascal(name):
    out, up = "", True
    for c in name:
        if c == "_":
            up = True
            continue
        out += c.upper() if up else c.lower()
        up = False
    return out


def concrete_for(sym, env):
    """A concrete string for a symbol, satisfying its recorded predicates."""
    tag = sym.tag
    if tag in env:
        return env[tag]
    p = sym.preds
    if p.get("negative"):
        v = "-2"
    elif p.get("isdigit") is True:
        v = "3" if not p.get("positive") else "4"
    elif p.get("isint") is True:
        v = "-5"
    elif sym.wild:
        v = 'te"xt\\x' if False else "Text%d" % (len(env) + 1)
    else:
        v = re.sub(r"\W", "", tag) or "n"
        if v[0].isdigit():
            v = "n" + v
    env[tag] = v
    return v


def render_value(v, env):
    v = simplify(v) if not isinstance(v, str) and v is not None else v
    if v is None or isinstance(v, str):
        return v
    return "".join(p if isinstance(p, str) else concrete_for(p, env) for p in as_tmpl(v).parts)


def elem_to_xml(e, env, indent=1):
    pad = "  " * indent
    attrs = "".join(' %s="%s"' % (k, html.escape(render_value(v, env), quote=True)) for k, v in e.attrs.items())
    kids = [elem_to_xml(c, env, indent + 1) for c in e.children]
    txt = html.escape(render_value(e.text, env)) if e.text is not None else ""
    if not kids and not txt:
        return "%s<%s%s/>" % (pad, e.tag, attrs)
    return "%s<%s%s>%s%s%s</%s>" % (pad, e.tag, attrs, txt, ("\n" + "\n".join(kids) + "\n" + pad) if kids else "", "", e.tag)


def eval_hole(ident, info, env):
    """Concrete text of a placeholder."""
    if info["kind"] == "int":
        expr = info["expr"]
        ns = {t: v for t, v in env.items()}
        # tags are identifiers in these expressions (int(off1), len(v0), ...)
        try:
            return str(eval(expr, {"__builtins__": {}}, dict(ns, int=int, len=len, abs=abs)))
        except Exception:
            return None
    tag = info["tag"]
    return eval_tag(tag, env)


def eval_tag(tag, env):
    m = re.match(r"^(snake|Pascal|escape|lower|upper)\((.*)\)$", tag)
    if m:
        inner = eval_tag(m.group(2), env)
        if inner is None:
            return None
        return {"snake": snake, "Pascal": pascal, "escape": lambda s: html.escape(s, quote=False), "lower": str.lower, "upper": str.upper}[m.group(1)](inner)
    m = re.match(r"^replace\((.*),('(?:[^'\\]|\\.)*'|\"(?:[^\"\\]|\\.)*\"),('(?:[^'\\]|\\.)*'|\"(?:[^\"\\]|\\.)*\")\)$", tag)
    if m:
        inner = eval_tag(m.group(1), env)
        if inner is None:
            return None
        return inner.replace(eval(m.group(2)), eval(m.group(3)))
    return env.get(tag)


RUNNER = r'''
import sys, json
from pathlib import Path
sys.path.insert(0, sys.argv[1])
from protocol_code_generator.generate.code_generator import ProtocolCodeGenerator
import io, contextlib
buf = io.StringIO()
try:
    with contextlib.redirect_stdout(buf):
        ProtocolCodeGenerator(Path(sys.argv[2])).generate(Path(sys.argv[3]))
    print(json.dumps({"ok": True}))
except Exception as e:
    print(json.dumps({"ok": False, "exc": type(e).__name__, "msg": str(e)}))
'''


def audit_one(args):
    repo, key, placement, idx_items = args
    from sa.genabs import shapes as S
    from sa.index import Index
    from sa.genabs.driver import Session
    items = {(sh.key): sh for _, sh, _ in lattice.enumerate_shapes("quick")}
    shape = items[key]
    session = audit_one.session if hasattr(audit_one, "session") else Session(Index(repo))
    audit_one.session = session
    outcomes = session.run_object(shape.make(placement))
    problems = []
    for o in outcomes:
        if "cmp" in o.path() or "Eq:" in o.path() or "Gt:" in o.path() or "NotEq:" in o.path():
            # paths that assume a relation between symbolic integers: instantiate len(v) == L only
            pass
        decls, body, _ = shape.make(placement)()
        env = {}
        # assumptions of this path: 'len(v) == L' for a hardcoded string with a literal length
        m = re.search(r"NotEq:<int int\((\w+)\)>:<int len\((\w+)\)>=(T|F)", o.path())
        if m:
            ltag, vtag, neq = m.groups()
            env[vtag] = "Text"
            env[ltag] = "9" if neq == "T" else "4"
        elif any(c in o.path() for c in ("Eq:", "Gt:", "Lt:", "NotEq:")):
            continue  # other integer relations are not instantiated by this audit
        tmp = tempfile.mkdtemp(prefix="fid.", dir="/tmp")
        try:
            xml = "<protocol>\n" + "\n".join(elem_to_xml(d, env) for d in decls) + "\n  <struct name=\"T\">\n" + \
                  "\n".join(elem_to_xml(b, env, 2) for b in body) + "\n  </struct>\n</protocol>\n"
            os.makedirs(tmp + "/xml")
            open(tmp + "/xml/protocol.xml", "w").write(xml)
            r = subprocess.run(["/venv/bin/python", "-c", RUNNER, repo, tmp + "/xml", tmp + "/out"], capture_output=True, text=True,
                               env={"PATH": os.environ.get("PATH", ""), "PYTHONDONTWRITEBYTECODE": "1"})
            try:
                res = json.loads(r.stdout.strip().splitlines()[-1])
            except Exception:
                problems.append((key, placement, o.path(), "runner failed: %s" % (r.stderr[-300:],)))
                continue
            if res["ok"] == o.rejected:
                problems.append((key, placement, o.path(), "real generator %s, abstract evaluation %s (%s)"
                                 % ("accepts" if res["ok"] else "rejects: %s" % res.get("msg"), "rejects" if o.rejected else "accepts", o.exc)))
                continue
            if o.rejected:
                if res["exc"] != o.exc_class:
                    problems.append((key, placement, o.path(), "real raises %s, abstract %s" % (res["exc"], o.exc_class)))
                continue
            real = open(tmp + "/out/t.py").read()
            sk = o.value
            text = sk.text
            for ident in sorted(sk.holes, key=len, reverse=True):
                val = eval_hole(ident, sk.holes[ident], env)
                if val is None:
                    problems.append((key, placement, o.path(), "cannot instantiate placeholder %s" % ident))
                    text = None
                    break
                text = text.replace(ident, val)
            if text is None:
                continue
            if text not in real:
                rl, al = real.splitlines(), text.splitlines()
                first = next((i for i, l in enumerate(al) if l not in real), None)
                problems.append((key, placement, o.path(), "skeleton differs from the real file; first abstract line not in the real output: %r"
                                 % (al[first] if first is not None else "?")))
        finally:
            shutil.rmtree(tmp, ignore_errors=True)
    return len(outcomes), problems


def audit_program(repo):
    """Whole-program fidelity: every file the real generator writes for a concrete instance of the C18 spec tree
    equals the abstract run's template for that file."""
    from sa.index import Index
    from sa.genabs.driver import Session, run_program
    from sa.props import c18
    session = Session(Index(repo))
    outs = run_program(session, c18.program_tree, runs=1)
    problems = []
    for o in outs:
        if o.rejected:
            problems.append(("program", o.path(), "abstract run rejected: %s" % o.exc))
            continue
        res = o.value[0]
        files = c18.program_tree()
        env = {}
        tmp = tempfile.mkdtemp(prefix="fidp.", dir="/tmp")
        try:
            for d, root in files.items():
                os.makedirs(os.path.join(tmp, "xml", d), exist_ok=True)
                xml = "<protocol>\n" + "\n".join(elem_to_xml(c, env) for c in root.children) + "\n</protocol>\n"
                open(os.path.join(tmp, "xml", d, "protocol.xml"), "w").write(xml)
            r = subprocess.run(["/venv/bin/python", "-c", RUNNER, repo, tmp + "/xml", tmp + "/out"], capture_output=True, text=True,
                               env={"PATH": os.environ.get("PATH", ""), "PYTHONDONTWRITEBYTECODE": "1"})
            out = json.loads(r.stdout.strip().splitlines()[-1])
            if not out["ok"]:
                problems.append(("program", o.path(), "real generator failed: %s" % out))
                continue
            real = {}
            for d, _, fs in os.walk(tmp + "/out"):
                for f in fs:
                    p = os.path.join(d, f)
                    real[os.path.relpath(p, tmp + "/out")] = open(p).read()
            mine = {}
            for f in res.files:
                path, content = f["path"], f["content"]
                for ident in sorted(res.holes, key=len, reverse=True):
                    val = eval_hole(ident, res.holes[ident], env)
                    if val is None:
                        val = "<?%s?>" % ident
                    path = path.replace(ident, val)
                    content = content.replace(ident, val)
                mine[os.path.normpath(os.path.relpath(path, "/out"))] = content
            if set(mine) != set(real):
                problems.append(("program", o.path(), "file sets differ: only abstract %s, only real %s"
                                 % (sorted(set(mine) - set(real))[:4], sorted(set(real) - set(mine))[:4])))
            def canon(text):
                # sorted() over symbolic strings yields a deterministic but unknown order in the abstract run:
                # import lines are compared as a set, everything else verbatim
                ls = text.splitlines()
                imps = sorted(l for l in ls if l.startswith("from ") and " import " in l)
                rest = [l for l in ls if not (l.startswith("from ") and " import " in l)]
                return "\n".join(imps + ["--"] + rest)
            for k in sorted(set(mine) & set(real)):
                if canon(mine[k]) != canon(real[k]):
                    a, b = canon(mine[k]).splitlines(), canon(real[k]).splitlines()
                    i = next((i for i, (x, y) in enumerate(zip(a, b)) if x != y), min(len(a), len(b)))
                    problems.append(("program", k, "line %d: abstract %r, real %r" % (i + 1, a[i] if i < len(a) else None, b[i] if i < len(b) else None)))
            print("program audit: %d files compared" % len(set(mine) & set(real)))
        finally:
            shutil.rmtree(tmp, ignore_errors=True)
    return problems


def main():
    ap = argparse.ArgumentParser()
    ap.add_argument("--program", action="store_true")
    ap.add_argument("--repo", default="/repo")
    ap.add_argument("--limit", type=int, default=0)
    ap.add_argument("--families", default="")
    ap.add_argument("--jobs", type=int, default=16)
    ap.add_argument("--placements", default="top,case-in-chunked")
    a = ap.parse_args()
    if a.program:
        problems = audit_program(a.repo)
        print("%d mismatch(es)" % len(problems))
        for p in problems[:30]:
            print("  MISMATCH", p)
        return 1 if problems else 0
    fams = a.families.split(",") if a.families else None
    items = lattice.enumerate_shapes("quick", fams)
    work = []
    for fam, sh, pls in items:
        for pl in a.placements.split(","):
            if pl in pls:
                work.append((a.repo, sh.key, pl, None))
    if a.limit:
        step = max(1, len(work) // a.limit)
        work = work[::step][: a.limit]
    total = 0
    problems = []
    with ProcessPoolExecutor(max_workers=a.jobs) as ex:
        for n, p in ex.map(audit_one, work, chunksize=4):
            total += n
            problems += p
    print("audited %d (shape, placement) cells, %d evaluation paths; %d mismatch(es)" % (len(work), total, len(problems)))
    for p in problems[:40]:
        print("  MISMATCH", p)
    return 1 if problems else 0


if __name__ == "__main__":
    sys.exit(main())
