#!/usr/bin/env python3
"""Run every registered check against every seeded change (scratch worktrees under /tmp, removed afterwards) and
record which checks fire.  Writes /verif/seeded/MATRIX.md and updates detected_by in each meta.json.
With --benign the same is done for the behaviour-preserving refactors in /verif/benign (there an X is a FALSE ALARM).
usage: tools/seed_matrix.py [--benign] [--jobs 4] [--checks C01,C02] [ids...]"""
import json
import os
import re
import shutil
import subprocess
import sys
import tempfile
from concurrent.futures import ThreadPoolExecutor

VERIF = os.path.dirname(os.path.dirname(os.path.abspath(__file__)))


def sh(cmd, cwd=None, env=None):
    p = subprocess.run(cmd, cwd=cwd, env=env, capture_output=True, text=True)
    return p.returncode, p.stdout + p.stderr


KIND = "seeded"
ONLY = None  # restrict to these checks (the other columns keep their last result)


def run_seed(sid):
    src = os.path.join(VERIF, KIND, sid)
    man = json.load(open(os.path.join(VERIF, "MANIFEST.json")))
    checks = [c["property_id"] for c in man["checks"] if ONLY is None or c["property_id"] in ONLY]
    tree = tempfile.mkdtemp(prefix="mx.", dir="/tmp")
    os.rmdir(tree)
    rc, o = sh(["git", "-C", "/repo", "worktree", "add", "--detach", tree, "HEAD", "-q"])
    res = {}
    try:
        rc, o = sh(["git", "-C", tree, "apply", os.path.join(src, "patch.diff")])
        if rc:
            return sid, {"__patch__": {"exit": -1, "rules": [o[:200]]}}
        env = dict(os.environ, VERIF_CACHE_KEEP="16")
        for c in checks:
            rc, txt = sh([os.path.join(VERIF, "check"), c, "--repo", tree], cwd=VERIF, env=env)
            rules = sorted(set(re.findall(r"rule=(\S+)", txt)))
            err = re.findall(r"^ANALYSIS-ERROR.*$", txt, re.M)
            res[c] = {"exit": rc, "rules": rules[:8]}
            if err:
                res[c]["error"] = err[0][:300]
    finally:
        sh(["git", "-C", "/repo", "worktree", "remove", "--force", tree])
        shutil.rmtree(tree, ignore_errors=True)
    return sid, res


def main():
    global KIND, ONLY
    jobs = 4
    args = sys.argv[1:]
    if "--benign" in args:
        args.remove("--benign")
        KIND = "benign"
    if "--checks" in args:
        i = args.index("--checks")
        ONLY = set(args[i + 1].split(","))
        del args[i:i + 2]
    if "--jobs" in args:
        i = args.index("--jobs")
        jobs = int(args[i + 1])
        del args[i:i + 2]
    seeds = args or sorted(d for d in os.listdir(os.path.join(VERIF, KIND)) if os.path.isdir(os.path.join(VERIF, KIND, d)))
    partial = bool(args)
    # evidence files are rewritten by every check run: restore them afterwards from git
    results = {}
    with ThreadPoolExecutor(max_workers=jobs) as ex:
        for sid, res in ex.map(run_seed, seeds):
            results[sid] = res
            det = [c for c, v in res.items() if v["exit"] == 1]
            err = [c for c, v in res.items() if v["exit"] not in (0, 1)]
            print(sid, "detected by", det, "analysis-error in", err, flush=True)
            mp = os.path.join(VERIF, KIND, sid, "meta.json")
            meta = json.load(open(mp))
            if ONLY is not None and "__patch__" not in res:
                merged = dict(meta.get("checks_run", {}))
                merged.update(res)
                res = merged
                results[sid] = res
                det = [c for c, v in res.items() if v["exit"] == 1]
                err = [c for c, v in res.items() if v["exit"] not in (0, 1)]
            meta["checks_run"] = res
            if KIND == "seeded":
                meta["detected_by"] = det
                meta["analysis_error_in"] = err
            else:
                meta["false_alarm_in"] = det
                meta["declined_by"] = err
            json.dump(meta, open(mp, "w"), indent=1)
    man = json.load(open(os.path.join(VERIF, "MANIFEST.json")))
    checks = [c["property_id"] for c in man["checks"]]
    if partial:
        # merge with the rows of the last full run
        for d in sorted(os.listdir(os.path.join(VERIF, KIND))):
            mp = os.path.join(VERIF, KIND, d, "meta.json")
            if d not in results and os.path.isfile(mp):
                results[d] = json.load(open(mp)).get("checks_run", {})
    if KIND == "seeded":
        head = ["# Seeded changes x checks", "",
                "`X` = the check exits 1 with a VIOLATION line, `E` = ANALYSIS-ERROR (exit 2: the analysis declines, never a pass), `.` = silent.",
                "Every seed was confirmed first (compiles, pinned suite 140 passed, its demo fails only with the change).", ""]
    else:
        head = ["# Behaviour-preserving refactors x checks", "",
                "`X` = the check exits 1: a FALSE ALARM, `E` = ANALYSIS-ERROR (exit 2: the analysis declines the refactored code), `.` = silent (the wanted outcome).",
                "Every refactor was confirmed first (compiles, pinned suite 140 passed, its equivalence digest is identical on both trees).", ""]
    lines = head + [
             "| seed | breaks | " + " | ".join(c[1:] for c in checks) + " |", "|---|---|" + "---|" * len(checks)]
    for sid in sorted(results):
        row = []
        for c in checks:
            e = results[sid].get(c, {}).get("exit")
            row.append("X" if e == 1 else "E" if e not in (0, 1, None) else ".")
        lines.append("| %s | %s | %s |" % (sid, sid.split("-")[0], " | ".join(row)))
    open(os.path.join(VERIF, KIND, "MATRIX.md"), "w").write("\n".join(lines) + "\n")
    sh(["git", "-C", VERIF, "checkout", "--", "evidence"])


if __name__ == "__main__":
    main()
