#!/bin/sh
# tools/try_patch.sh <patch file or seeded/benign id> <check> [<check> ...]   -- scratch copy under /tmp, removed afterwards
P=$1; shift
case "$P" in
  /*) ;;
  *) if [ -f "/verif/seeded/$P/patch.diff" ]; then P=/verif/seeded/$P/patch.diff; elif [ -f "/verif/benign/$P/patch.diff" ]; then P=/verif/benign/$P/patch.diff; else P=$(pwd)/$P; fi;;
esac
D=$(mktemp -d /tmp/mut.XXXXXX)
cp -r /repo/src /repo/protocol_code_generator /repo/protocol.py "$D"/
(cd "$D" && patch -p1 -s < "$P") || { echo "PATCH FAILED"; rm -rf "$D"; exit 3; }
cd /verif
for c in "$@"; do
  ./check "$c" --repo "$D" 2>&1 | grep -E "^(VIOLATION|ANALYSIS|C[0-9]+ tier)|rule=" | head -${LINES_MAX:-4} | cut -c1-${COLS_MAX:-400}
done
rm -rf "$D"
