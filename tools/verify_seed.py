#!/usr/bin/env python3
"""Confirm a seeded change produced by a sub-agent and record it under /verif/seeded/.

usage: tools/verify_seed.py <src dir with patch.diff demo.py meta.json> <seed id> [--checks C01,C02,...]

Steps (all in a scratch git worktree of /repo under /tmp, removed afterwards):
  1. demo on the clean tree must exit 0
  2. patch must apply; byte-compile must succeed
  3. pinned test suite on the patched tree must give 140 passed
  4. demo on the patched tree must exit non-zero
  5. every registered check is run against the patched tree (--repo) and its verdict recorded
"""
import json
import os
import re
import shutil
import subprocess
import sys
import tempfile

VERIF = os.path.dirname(os.path.dirname(os.path.abspath(__file__)))
PY = "/venv/bin/python"


def sh(cmd, cwd=None, env=None, timeout=900):
    p = subprocess.run(cmd, shell=isinstance(cmd, str), cwd=cwd, env=env, capture_output=True, text=True, timeout=timeout)
    return p.returncode, p.stdout + p.stderr


def run_checks(tree, checks):
    out = {}
    for c in checks:
        rc, txt = sh([os.path.join(VERIF, "check"), c, "--repo", tree], cwd=VERIF)
        rules = sorted(set(re.findall(r"rule=(\S+)", txt)))
        out[c] = {"exit": rc, "rules": rules[:12]}
    return out


def main():
    src, sid = sys.argv[1], sys.argv[2]
    checks = None
    if "--checks" in sys.argv:
        checks = sys.argv[sys.argv.index("--checks") + 1].split(",")
    man = json.load(open(os.path.join(VERIF, "MANIFEST.json")))
    if checks is None:
        checks = [c["property_id"] for c in man["checks"]]
    meta = json.load(open(os.path.join(src, "meta.json")))
    tree = tempfile.mkdtemp(prefix="vseed.", dir="/tmp")
    os.rmdir(tree)
    rc, o = sh(["git", "-C", "/repo", "worktree", "add", "--detach", tree, "HEAD", "-q"])
    if rc:
        print("worktree failed", o)
        return 2
    env = dict(os.environ, PYTHONPATH="%s/src:%s" % (tree, tree), PYTHONDONTWRITEBYTECODE="1")
    res = {"seed": sid}
    try:
        demo = os.path.join(src, "demo.py")
        rc, o = sh([PY, demo, tree], cwd=tree, env=env)
        res["demo_clean_exit"] = rc
        rc, o = sh(["git", "-C", tree, "apply", os.path.join(src, "patch.diff")])
        res["patch_applies"] = rc == 0
        if rc:
            print(o)
        rc, o = sh([PY, "-m", "compileall", "-q", "src", "protocol_code_generator", "protocol.py"], cwd=tree, env=dict(env, PYTHONDONTWRITEBYTECODE=""))
        res["compiles"] = rc == 0
        sh("find . -name __pycache__ -prune -exec rm -rf {} +", cwd=tree)
        rc, o = sh([PY, "-m", "pytest", "-q", "-p", "no:cacheprovider", "--continue-on-collection-errors"], cwd=tree, env=env)
        m = re.search(r"(\d+) passed", o)
        res["tests_passed"] = int(m.group(1)) if m else 0
        res["tests_failed"] = bool(re.search(r"\d+ failed", o))
        rc, o = sh([PY, demo, tree], cwd=tree, env=env)
        res["demo_patched_exit"] = rc
        res["demo_patched_msg"] = o.strip().splitlines()[-1][:300] if o.strip() else ""
        res["checks"] = run_checks(tree, checks)
    finally:
        sh(["git", "-C", "/repo", "worktree", "remove", "--force", tree])
        shutil.rmtree(tree, ignore_errors=True)
    ok = (res.get("demo_clean_exit") == 0 and res.get("patch_applies") and res.get("compiles")
          and res.get("tests_passed") == 140 and not res.get("tests_failed") and res.get("demo_patched_exit") not in (0, None))
    res["confirmed"] = bool(ok)
    detected = [c for c, v in res.get("checks", {}).items() if v["exit"] == 1]
    errored = [c for c, v in res.get("checks", {}).items() if v["exit"] not in (0, 1)]
    res["detected_by"] = detected
    res["analysis_error_in"] = errored
    print(json.dumps(res, indent=1))
    if ok:
        dst = os.path.join(VERIF, "seeded", sid)
        os.makedirs(dst, exist_ok=True)
        shutil.copy(os.path.join(src, "patch.diff"), dst)
        shutil.copy(demo, dst)
        meta_out = {
            "id": sid,
            "property": meta.get("property"),
            "summary": meta.get("summary"),
            "needs": meta.get("needs"),
            "files": meta.get("files"),
            "origin": "fresh sub-agent given only the property text and a scratch worktree",
            "confirmed": {
                "how": "tools/verify_seed.py in a scratch worktree of /repo HEAD: demo exits 0 on the clean tree; patch applies and "
                       "byte-compiles; pinned suite gives 140 passed on the patched tree; demo exits non-zero on the patched tree",
                "demo_clean_exit": res["demo_clean_exit"], "tests_passed": res["tests_passed"],
                "demo_patched_exit": res["demo_patched_exit"], "demo_patched_msg": res["demo_patched_msg"],
            },
            "checks_run": res["checks"],
            "detected_by": detected,
        }
        with open(os.path.join(dst, "meta.json"), "w") as f:
            json.dump(meta_out, f, indent=1)
            f.write("\n")
    return 0 if ok else 1


if __name__ == "__main__":
    sys.exit(main())
