#!/bin/sh
# run every registered check (quick tier) and validate manifest + evidence against the schemas
cd "$(dirname "$0")/.."
rc=0
for c in $(python3 -c "import json;print(' '.join(c['property_id'] for c in json.load(open('MANIFEST.json'))['checks']))"); do
  out=$(./check $c --tier ${1:-quick} 2>&1); e=$?
  echo "$out" | tail -1 | cut -c1-150
  [ $e -ne 0 ] && { echo "  !! $c exit $e"; rc=1; }
done
python3-vt - <<'PY'
import json,jsonschema,glob
man=json.load(open('MANIFEST.json'))
jsonschema.validate(man, json.load(open('/root/.vp/MANIFEST.schema.json')))
sch=json.load(open('/root/.vp/EVIDENCE.schema.json'))
for c in man['checks']:
    ev=json.load(open(c['evidence_file'])); jsonschema.validate(ev, sch)
    if ev['level']!=c['level_claimed']['category']: print('LEVEL MISMATCH', c['property_id'], ev['level'], c['level_claimed']['category'])
    cov=ev['coverage']
    if ev['level']=='proof' and cov['obligations']!=cov['discharged']: print('PROOF NOT FULLY DISCHARGED', c['property_id'])
print('manifest+evidence valid')
PY
exit $rc
