#!/bin/sh
# ad-hoc mutation probe: tools/mut.sh <prop> <relative file> <sed expression>   (scratch copy under /tmp, removed afterwards)
set -e
P=$1; F=$2; E=$3
D=$(mktemp -d /tmp/mut.XXXXXX)
cp -r /repo/src /repo/protocol_code_generator /repo/protocol.py "$D"/
sed -i "$E" "$D/$F"
if cmp -s "$D/$F" "/repo/$F"; then echo "MUTATION DID NOT APPLY"; rm -rf "$D"; exit 3; fi
/venv/bin/python -c "import ast,sys; ast.parse(open('$D/$F').read())"
cd /verif && ./check "$P" --repo "$D" | grep -E "^(VIOLATION|KNOWN|ANALYSIS|C[0-9]+ tier)|rule=" | head -${LINES_MAX:-6}
rm -rf "$D"
