#!/usr/bin/env python3
"""Confirm a behaviour-preserving refactor produced by a sub-agent, run every check against it and record it under
/verif/benign/<id>/ (patch.diff, equiv.py, meta.json).  A check that exits 1 on a confirmed refactor is a FALSE ALARM;
exit 2 means the analysis declines (not an alarm, but a loss of coverage worth knowing about).

usage: tools/verify_benign.py <src dir with patch.diff equiv.py meta.json> <id> [--checks C01,C02,...]

Steps (scratch git worktree of /repo under /tmp, removed afterwards):
  1. equiv.py on the clean tree prints digest D0
  2. patch applies; byte-compiles; pinned suite gives 140 passed
  3. equiv.py on the patched tree prints the same digest
  4. every registered check is run against the patched tree
"""
import json
import os
import re
import shutil
import subprocess
import sys
import tempfile

VERIF = os.path.dirname(os.path.dirname(os.path.abspath(__file__)))
PY = "/venv/bin/python"


def sh(cmd, cwd=None, env=None, timeout=1800):
    p = subprocess.run(cmd, shell=isinstance(cmd, str), cwd=cwd, env=env, capture_output=True, text=True, timeout=timeout)
    return p.returncode, p.stdout + p.stderr


def digest(txt):
    m = re.findall(r"\b[0-9a-f]{64}\b", txt)
    return m[-1] if m else None


def main():
    src, bid = sys.argv[1], sys.argv[2]
    man = json.load(open(os.path.join(VERIF, "MANIFEST.json")))
    checks = [c["property_id"] for c in man["checks"]]
    if "--checks" in sys.argv:
        checks = sys.argv[sys.argv.index("--checks") + 1].split(",")
    meta = json.load(open(os.path.join(src, "meta.json")))
    tree = tempfile.mkdtemp(prefix="vben.", dir="/tmp")
    os.rmdir(tree)
    rc, o = sh(["git", "-C", "/repo", "worktree", "add", "--detach", tree, "HEAD", "-q"])
    if rc:
        print("worktree failed", o)
        return 2
    env = dict(os.environ, PYTHONPATH="%s/src:%s" % (tree, tree), PYTHONDONTWRITEBYTECODE="1")
    res = {"id": bid}
    try:
        eq = os.path.join(src, "equiv.py")
        rc, o = sh([PY, eq, tree], cwd=tree, env=env)
        res["digest_clean"] = digest(o) if rc == 0 else None
        rc, o = sh(["git", "-C", tree, "apply", os.path.join(src, "patch.diff")])
        res["patch_applies"] = rc == 0
        rc, o = sh([PY, "-m", "compileall", "-q", "src", "protocol_code_generator", "protocol.py"], cwd=tree, env=dict(env, PYTHONDONTWRITEBYTECODE=""))
        res["compiles"] = rc == 0
        sh("find . -name __pycache__ -prune -exec rm -rf {} +", cwd=tree)
        rc, o = sh([PY, "-m", "pytest", "-q", "-p", "no:cacheprovider", "--continue-on-collection-errors"], cwd=tree, env=env)
        m = re.search(r"(\d+) passed", o)
        res["tests_passed"] = int(m.group(1)) if m else 0
        res["tests_failed"] = bool(re.search(r"\d+ failed", o))
        rc, o = sh([PY, eq, tree], cwd=tree, env=env)
        res["digest_patched"] = digest(o) if rc == 0 else None
        res["checks"] = {}
        cenv = dict(os.environ, VERIF_CACHE_KEEP="24")
        for c in checks:
            rc, txt = sh([os.path.join(VERIF, "check"), c, "--repo", tree], cwd=VERIF, env=cenv)
            rules = sorted(set(re.findall(r"rule=(\S+)", txt)))
            err = re.findall(r"^ANALYSIS-ERROR.*$", txt, re.M)
            res["checks"][c] = {"exit": rc, "rules": rules[:8], "error": err[0][:300] if err else None}
    finally:
        sh(["git", "-C", "/repo", "worktree", "remove", "--force", tree])
        shutil.rmtree(tree, ignore_errors=True)
    ok = (res.get("digest_clean") and res.get("digest_clean") == res.get("digest_patched") and res.get("patch_applies")
          and res.get("compiles") and res.get("tests_passed") == 140 and not res.get("tests_failed"))
    res["confirmed"] = bool(ok)
    res["false_alarm_in"] = [c for c, v in res.get("checks", {}).items() if v["exit"] == 1]
    res["declined_by"] = [c for c, v in res.get("checks", {}).items() if v["exit"] not in (0, 1)]
    print(json.dumps({k: v for k, v in res.items() if k != "checks"}, indent=1))
    for c in res["false_alarm_in"] + res["declined_by"]:
        print(c, res["checks"][c])
    if ok:
        dst = os.path.join(VERIF, "benign", bid)
        os.makedirs(dst, exist_ok=True)
        shutil.copy(os.path.join(src, "patch.diff"), dst)
        shutil.copy(eq, dst)
        out = {"id": bid, "property": meta.get("property"), "summary": meta.get("summary"), "kind": meta.get("kind"),
               "files": meta.get("files"),
               "origin": "fresh sub-agent given only the property text and a scratch worktree, asked for a behaviour-preserving refactor",
               "confirmed": {"how": "tools/verify_benign.py in a scratch worktree of /repo HEAD: patch applies and byte-compiles; pinned suite "
                                    "gives 140 passed; equiv.py prints the same digest on the clean and on the patched tree",
                             "digest": res["digest_clean"], "tests_passed": res["tests_passed"]},
               "checks_run": {c: {"exit": v["exit"], "rules": v["rules"], "error": v["error"]} for c, v in res["checks"].items()},
               "false_alarm_in": res["false_alarm_in"], "declined_by": res["declined_by"]}
        with open(os.path.join(dst, "meta.json"), "w") as f:
            json.dump(out, f, indent=1)
            f.write("\n")
    return 0 if ok else 1


if __name__ == "__main__":
    sys.exit(main())
