"""Reference model of the packet sequencer: state (start, counter).

next:  result = start + counter ; counter' = (counter + 1) mod 10 ; start unchanged
set:   start' = new ; counter unchanged
init:  counter = 0
By induction the n-th result is start_in_force + (n mod 10) for every interleaving.
"""


def next_result(start_value, counter):
    return start_value + counter


def next_counter(counter):
    return (counter + 1) % 10
