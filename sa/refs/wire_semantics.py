"""Reference semantics of the eo-protocol instruction grammar (DESIGN appendix B, E).

Written from the eo-protocol documentation, independently of the generator: given the
abstract XML of one object (the instructions of a struct / packet / case), it states
  * the write grammar (tokens in document order, with the guards that must precede them),
  * the read grammar (the reading rules, loop forms included),
  * the constructor facts (which fields exist, which length fields are derived).
The S-ref / S-guard / S-read rules compare what the generator emits with these.
"""
import re

INT_WIDTH = {"byte": 1, "char": 1, "short": 2, "three": 3, "int": 4}
INT_MAX = {"byte": 255, "char": 252, "short": 64008, "three": 16194276, "int": 4097152080}

# the environment of declared custom types the shapes are evaluated in (see genabs/shapes.declarations)
DECLARED = {
    "E": dict(kind="enum", underlying="char", members={"A": "A", "B": "B", "None": "None_"}, ordinals={0, 1, 2}),
    "SF": dict(kind="struct", fixed=3, bounded=True),
    "SB": dict(kind="struct", fixed=None, bounded=True),
    "SU": dict(kind="struct", fixed=None, bounded=False),
    "SC": dict(kind="struct", fixed=None, bounded=True),
    "SP": dict(kind="struct", fixed=5, bounded=True),   # padded string of 4 + char
    "SX": dict(kind="struct", fixed=13, bounded=True),  # 2 shorts + encoded string of 3 + bool:short + E:three + dummy char
    "SW": dict(kind="struct", fixed=None, bounded=True),  # char + switch with a short in its case: no fixed size (switch)
    "SK": dict(kind="struct", fixed=None, bounded=True),  # chunked section of char + short: no fixed size (chunked)
}


def ident(x):
    """Identifier the skeleton uses for a piece of spec text (a symbol -> its placeholder)."""
    if isinstance(x, str):
        return x
    return "h_" + re.sub(r"\W+", "_", x.tag).strip("_")


def is_true(v):
    """Boolean XML attribute: true iff its text is 'true' (case-insensitive); absent = default."""
    return isinstance(v, str) and v.lower() == "true"


class TypeRef:
    def __init__(self, text):
        self.text = text
        base, _, under = text.partition(":") if isinstance(text, str) else (text, "", "")
        self.base = base
        self.under = under or None
        if base in INT_WIDTH:
            self.kind, self.prim = "int", base
        elif base == "bool":
            self.kind, self.prim = "bool", (under or "char")
        elif base in ("string", "encoded_string"):
            self.kind, self.prim = "string", None
        elif base == "blob":
            self.kind, self.prim = "blob", None
        elif base in DECLARED and DECLARED[base]["kind"] == "enum":
            self.kind, self.prim = "enum", (under or DECLARED[base]["underlying"])
        elif base in DECLARED:
            self.kind, self.prim = "struct", None
        else:
            self.kind, self.prim = "unknown", None

    @property
    def fixed_size(self):
        if self.kind in ("int", "bool", "enum"):
            return INT_WIDTH[self.prim]
        if self.kind == "struct":
            return DECLARED[self.base]["fixed"]
        return None

    @property
    def python_type(self):
        return {"int": "int", "bool": "bool", "string": "str", "blob": "bytes"}.get(self.kind, self.base)


class Scope:
    """Expected grammar of one object (struct/packet/case body)."""

    def __init__(self, class_name):
        self.class_name = class_name
        self.write = []
        self.read = []
        self.ctor = []  # constructor keyword names in order
        self.derived_lengths = {}  # length field ident -> referent ident
        self.fields = {}  # ident -> dict(optional=..., array=..., kind=...)
        self.nested = {}  # case class name -> Scope
        self.mode_brackets = 0


class Ctx:
    def __init__(self, in_chunked=False):
        self.in_chunked = in_chunked
        self.emitted = False  # anything emitted in this scope so far (dummy guard)
        self.opt_chain = []  # optional fields met so far in this scope
        self.lengths = {}  # length field ident -> (TypeRef, offset descriptor)


def offset_of(elem):
    """None | ('+'|'-', text) : how the wire value differs from the count (value = count - offset)."""
    off = elem.attrs.get("offset")
    if off is None:
        return None
    if isinstance(off, str):
        n = int(off)
        if n == 0:
            return None
        return ("pos" if n > 0 else "neg", str(abs(n)), n)
    tag = off.tag
    sign = "neg" if off.preds.get("negative") else "pos"
    return (sign, "h_int_abs_int_" + re.sub(r"\W+", "_", tag).strip("_"), off)


def max_plus_offset(tref, off):
    base = INT_MAX[tref.prim]
    if off is None:
        return str(base)
    if isinstance(off[2], int):
        return str(base + off[2])
    return "h_int_" + re.sub(r"\W+", "_", "(%d + int(%s))" % (base, off[2].tag)).strip("_")


def expect_scope(instrs, class_name, in_chunked=False):
    sc = Scope(class_name)
    ctx = Ctx(in_chunked)
    for ins in instrs:
        _instruction(sc, ctx, ins)
    return sc


def _instruction(sc, ctx, e):
    tag = e.tag
    if tag in ("field", "array", "length"):
        _field(sc, ctx, e)
    elif tag == "dummy":
        _dummy(sc, ctx, e)
    elif tag == "break":
        sc.write.append(("break",))
        sc.read.append(("next_chunk",))
        ctx.emitted = True
        ctx.opt_chain = []  # a chunk boundary: the "missing optional" chain starts again in the next chunk
    elif tag == "chunked":
        was = ctx.in_chunked
        if not was:
            ctx.in_chunked = True
            sc.write.append(("san", True))
            sc.read.append(("mode", True))
            sc.mode_brackets += 1
            ctx.emitted = True
        for c in e.children:
            if c.tag != "comment":
                _instruction(sc, ctx, c)
        if not was:
            ctx.in_chunked = False
            sc.write.append(("san", False))
            sc.read.append(("mode", False))
    elif tag == "switch":
        _switch(sc, ctx, e)


def _value_tokens(tref, val, length_expr_w, length_expr_r, padded):
    """(write token, read core) for one value of the given type."""
    if tref.kind == "int":
        return ("prim", tref.prim, val), ("prim", tref.prim)
    if tref.kind == "bool":
        return ("prim", tref.prim, ("b2i", val)), ("wrap", "neq0", ("prim", tref.prim))
    if tref.kind == "enum":
        return ("prim", tref.prim, ("int", val)), ("wrap", ("enum", tref.base), ("prim", tref.prim))
    if tref.kind == "string":
        enc = tref.base == "encoded_string"
        if length_expr_w is None:
            return ("str", enc, val), ("str", enc)
        return ("fixstr", enc, val, length_expr_w, str(padded)), ("fixstr", enc, length_expr_r, str(padded))
    if tref.kind == "blob":
        return ("blob", val), ("blob", "reader.remaining")
    if tref.kind == "struct":
        return ("struct", tref.base, val), ("struct", tref.base)
    raise ValueError("unknown type %r" % (tref.text,))


def _hardcoded_literal(tref, text):
    if tref.kind == "int":
        return ident(text)
    if tref.kind == "bool":
        return "1" if text == "true" else "0"
    if tref.kind == "string":
        return repr(ident(text))
    raise ValueError("hardcoded value for %s" % tref.kind)


def _field(sc, ctx, e):
    a = e.attrs
    is_array = e.tag == "array"
    is_length = e.tag == "length"
    name = a.get("name")
    nid = ident(name) if name is not None else None
    tref = TypeRef(a["type"])
    optional = is_true(a.get("optional"))
    padded = is_true(a.get("padded"))
    delimited = is_true(a.get("delimited"))
    trailing = is_true(a.get("trailing-delimiter")) if a.get("trailing-delimiter") is not None else True
    text = e.text
    length = a.get("length")
    lw = lr = None
    lkind = None
    if length is not None:
        lid = ident(length)
        if not isinstance(length, str) and lid in ctx.lengths:
            lkind = "ref"
            lw, lr = "data._%s" % lid, lid
        elif isinstance(length, str) and length in ctx.lengths:
            lkind = "ref"
            lw, lr = "data._%s" % length, length
        else:
            lkind = "lit"
            lw = lr = lid
    write, read = [], []
    off = offset_of(e) if is_length else None
    # ---- guards (C16)
    if nid is not None and not optional and text is None:
        write.append(("none_guard", "_" + nid))
    if nid is not None and length is not None:
        if lkind == "lit":
            write.append(("len_guard", "_" + nid, ">" if padded else "!=", lw))
        else:
            lt, loff = ctx.lengths[lr]
            write.append(("len_guard", "_" + nid, ">", max_plus_offset(lt, loff)))
    # ---- value
    if nid is not None:
        val = "data._%s" % nid + ("[i]" if is_array else "")
    else:
        val = _hardcoded_literal(tref, text)
    wtok, rcore = _value_tokens(tref, val, None if is_array else lw, None if is_array else lr, padded)
    if off is not None:
        sign = "-" if off[0] == "pos" else "+"
        rsign = "+" if off[0] == "pos" else "-"
        wtok = ("prim", wtok[1], ("off", wtok[2], sign, off[1]))
        rcore = ("wrap", ("off", rsign, off[1]), rcore)
    if is_array:
        count = lw if length is not None else "len(data._%s)" % nid
        body = []
        if delimited and not trailing:
            body.append(("if_not_first", [("break",)]))
        body.append(wtok)
        if delimited and trailing:
            body.append(("break",))
        write.append(("loop", count, body))
        rbody = [("append", nid, rcore)]
        if length is not None:
            if delimited:
                rbody.append(("next_chunk",) if trailing else ("if_not_last", [("next_chunk",)]))
            read += [("init_list", nid), ("for", lr, rbody)]
        elif not delimited and tref.fixed_size is not None:
            read += [("count_var", "$count", str(tref.fixed_size)), ("init_list", nid), ("for", "$count", rbody)]
        else:
            if delimited:
                rbody.append(("next_chunk",))
            read += [("init_list", nid), ("while_remaining", rbody)]
    else:
        write.append(wtok)
        read.append(("read", nid, rcore))
    if optional:
        chain = tuple(ctx.opt_chain + ["_" + nid])
        ctx.opt_chain.append("_" + nid)
        sc.write += [("optvar", chain), ("opt", chain, write)]
        sc.read += [("init_none", nid), ("if_remaining", read)]
    else:
        sc.write += write
        sc.read += read
    ctx.emitted = True
    if nid is not None:
        sc.fields[nid] = dict(optional=optional, array=is_array, length=is_length, kind=tref.kind, hardcoded=text is not None)
        if is_length:
            ctx.lengths[nid] = (tref, off)
        else:
            sc.ctor.append(nid)
            if lkind == "ref":
                sc.derived_lengths[lr] = nid


def _dummy(sc, ctx, e):
    tref = TypeRef(e.attrs["type"])
    val = _hardcoded_literal(tref, e.text)
    wtok, rcore = _value_tokens(tref, val, None, None, False)
    if ctx.emitted:
        sc.write.append(("dummy_guard", [wtok], True))
        sc.read.append(("dummy_guard", [("read", None, rcore)], True))
    else:
        sc.write.append(wtok)
        sc.read.append(("read", None, rcore))
    ctx.emitted = True


def _switch(sc, ctx, e):
    field = e.attrs["field"]
    fid = ident(field)
    info = sc.fields.get(fid, {})
    data = fid + "_data"
    pascal = "h_Pascal_" + re.sub(r"\W+", "_", field.tag).strip("_") if not isinstance(field, str) else None
    iface = (pascal if pascal else "".join(p.capitalize() for p in field.split("_"))) + "Data"
    warms, rarms = [], []
    sc.read.append(("init_none", data))
    for c in [c for c in e.children if c.tag == "case"]:
        default = is_true(c.attrs.get("default"))
        body = [x for x in c.children if x.tag in ("field", "array", "length", "dummy", "switch", "chunked", "break")]
        if default:
            cond = ("else",)
            suffix = "Default"
        else:
            v = c.attrs["value"]
            if info.get("kind") == "enum" and isinstance(v, str) and not v.isdigit():
                cond = ("eq", "E.%s" % DECLARED["E"]["members"].get(v, v))
            else:
                cond = ("eq", ident(v))
            suffix = ident(v)
        cname = "%s.%s%s" % (sc.class_name, iface, suffix)
        if body:
            warms.append((cond, [("case_type_guard", "_" + data, cname), ("struct", cname, "data._%s" % data)]))
            rarms.append((cond, [("read", data, ("struct", cname))]))
            sub = expect_scope(body, cname, ctx.in_chunked)
            sc.nested[cname] = sub
        else:
            warms.append((cond, [("case_none_guard", "_" + data)]))
            rarms.append((cond, [("init_none", data)]))
    sc.write.append(("switch", "_" + fid, warms))
    sc.read.append(("switch", fid, rarms))
    sc.ctor.append(data)
    ctx.emitted = True
