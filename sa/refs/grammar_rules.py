"""Reference: the rules of the eo-protocol instruction grammar a specification must obey (C17's catalogue,
DESIGN appendix C).  `violations(instructions, in_chunked)` lists the rules an object's instruction list breaks;
an empty list means the object is well-formed.  Written from the grammar's documentation, independently of the
generator's validation code.  Rule numbers follow the catalogue.
"""
from .wire_semantics import DECLARED, INT_WIDTH, is_true

BASIC_INT = set(INT_WIDTH)
STRINGS = {"string", "encoded_string"}


class TypeInfo:
    def __init__(self, text):
        self.problems = []
        self.kind = None
        self.bounded = True
        self.base = None
        if not isinstance(text, str):
            self.problems.append((2, "type %r is not declared" % (text,)))
            return
        parts = text.split(":")
        if len(parts) > 2:
            self.problems.append((13, "type syntax %r: only one colon is allowed" % text))
            return
        base = parts[0]
        under = parts[1] if len(parts) == 2 else None
        self.base = base
        if base in BASIC_INT:
            self.kind = "int"
        elif base == "bool":
            self.kind = "bool"
        elif base in STRINGS:
            self.kind = "string"
            self.bounded = False  # unless a length is given (the caller decides)
        elif base == "blob":
            self.kind = "blob"
            self.bounded = False
        elif base in DECLARED:
            self.kind = DECLARED[base]["kind"]
            if self.kind == "struct":
                self.bounded = DECLARED[base]["bounded"]
        else:
            self.problems.append((2, "type %s is not declared" % base))
            return
        if under is not None:
            if under == base:
                self.problems.append((13, "%s cannot specify itself as its underlying type" % base))
            elif under not in BASIC_INT:
                self.problems.append((13, "underlying type %s is not numeric" % under))
            if self.kind not in ("bool", "enum"):
                self.problems.append((13, "%s has no underlying type to override" % base))


class Scope:
    def __init__(self, in_chunked, reached_optional=False, reached_dummy=False):
        self.in_chunked = in_chunked
        self.reached_optional = reached_optional
        self.reached_dummy = reached_dummy
        self.fields = {}  # key -> dict(kind, array)
        self.lengths = {}  # key -> times referenced


def key(x):
    return x if isinstance(x, str) else ("sym", x.tag)


def text_kind(t):
    """What a piece of spec text is known to be: 'digits' / 'true' / 'false' / 'int' / 'text' / None(absent)."""
    if t is None:
        return None
    if isinstance(t, str):
        if t.isdigit():
            return "digits"
        if t in ("true", "false"):
            return t
        try:
            int(t)
            return "int"
        except ValueError:
            return "text"
    p = t.preds
    if p.get("isdigit") is True:
        return "digits"
    if p.get("== 'true'") is True:
        return "true"
    if p.get("== 'false'") is True:
        return "false"
    if p.get("isint") is True:
        return "int"
    return "text"


def violations(instrs, in_chunked=False):
    sc = Scope(in_chunked)
    out = []
    _walk(instrs, sc, out)
    return out


def _walk(instrs, sc, out):
    for e in instrs:
        if e.tag == "comment":
            continue
        if sc.reached_dummy:
            out.append((9, "<%s> follows a <dummy>" % e.tag))
        if e.tag in ("field", "array", "length"):
            _field(e, sc, out)
        elif e.tag == "dummy":
            _dummy(e, sc, out)
        elif e.tag == "break":
            if not sc.in_chunked:
                out.append((7, "<break> outside a chunked section"))
            sc.reached_optional = False
            sc.reached_dummy = False
        elif e.tag == "chunked":
            was = sc.in_chunked
            sc.in_chunked = True
            _walk(e.children, sc, out)
            sc.in_chunked = was
        elif e.tag == "switch":
            _switch(e, sc, out)


def _field(e, sc, out):
    a = e.attrs
    is_array, is_length = e.tag == "array", e.tag == "length"
    name = a.get("name")
    ti = TypeInfo(a.get("type"))
    out.extend(ti.problems)
    optional = is_true(a.get("optional"))
    delimited = is_true(a.get("delimited"))
    text = e.text
    tk = text_kind(text)
    length = a.get("length")
    if is_array and name is None:
        out.append((17, "array without a name"))
    if is_length:
        if name is None:
            out.append((17, "length field without a name"))
        if text is not None:
            out.append((17, "length field with a hardcoded value"))
        if ti.kind is not None and ti.kind != "int":
            out.append((17, "length field of non-integer type %s" % ti.base))
        off = a.get("offset")
        if off is not None and text_kind(off) not in ("digits", "int"):
            out.append((13, "offset is not an integer"))
    if name is None and not is_array and not is_length:
        if text is None:
            out.append((10, "unnamed field without a hardcoded value"))
        if optional:
            out.append((10, "unnamed field marked optional"))
    if optional and name is None and (is_array or is_length):
        out.append((10, "optional instruction without a name"))
    if is_array and text is not None:
        out.append((11, "array with a hardcoded value"))
    if delimited and not is_array:
        out.append((6, "only arrays can be delimited"))
    if is_array and delimited and not sc.in_chunked:
        out.append((6, "delimited array outside a chunked section"))
    # length attribute
    length_is_ref = False
    if length is not None:
        lk = text_kind(length)
        if lk != "digits":
            if key(length) in sc.lengths:
                length_is_ref = True
                if sc.lengths[key(length)] >= 1:
                    out.append((5, "length field referenced by more than one field"))
                sc.lengths[key(length)] += 1
            else:
                out.append((4, "length attribute is neither a number nor an in-scope length field"))
        if not is_array and ti.kind is not None and ti.kind != "string":
            out.append((12, "length on a %s field" % ti.base))
    # hardcoded value
    if text is not None and not is_array and not is_length and ti.kind is not None:
        if ti.kind not in ("int", "bool", "string"):
            out.append((11, "hardcoded value on a %s field" % ti.base))
        elif ti.kind == "int" and tk != "digits":
            out.append((11, "hardcoded value of an integer field is not a number"))
        elif ti.kind == "bool" and tk not in ("true", "false"):
            out.append((11, "hardcoded value of a bool field is not true/false"))
        elif ti.kind == "string" and length is not None and text_kind(length) == "digits":
            if isinstance(text, str) and isinstance(length, str):
                if len(text) != int(length):
                    out.append((11, "hardcoded string of %d characters declared with length %s" % (len(text), length)))
            else:
                out.append(("cond", "hardcoded string must have the declared literal length"))
    # unbounded element in a non-delimited array
    if is_array and not delimited and ti.kind is not None:
        unbounded = ti.kind in ("string", "blob") or (ti.kind == "struct" and not ti.bounded)
        if unbounded:
            out.append((17, "non-delimited array of unbounded element type %s" % ti.base))
    # ordering
    if sc.reached_optional and not optional:
        out.append((8, "required <%s> after an optional one" % e.tag))
    if name is not None:
        if key(name) in sc.fields:
            out.append((3, "field name defined twice in one scope"))
        sc.fields[key(name)] = dict(kind=ti.kind, array=is_array)
        if is_length:
            sc.lengths[key(name)] = 0
    if optional:
        sc.reached_optional = True


def _dummy(e, sc, out):
    ti = TypeInfo(e.attrs.get("type"))
    out.extend(ti.problems)
    tk = text_kind(e.text)
    if e.text is None:
        out.append((10, "<dummy> without a value"))
    elif ti.kind is not None:
        if ti.kind not in ("int", "bool", "string"):
            out.append((11, "dummy value on a %s type" % ti.base))
        elif ti.kind == "int" and tk != "digits":
            out.append((11, "dummy value of an integer type is not a number"))
        elif ti.kind == "bool" and tk not in ("true", "false"):
            out.append((11, "dummy value of a bool type is not true/false"))
    sc.reached_dummy = True


def _switch(e, sc, out):
    field = e.attrs.get("field")
    info = sc.fields.get(key(field)) if field is not None else None
    cases = [c for c in e.children if c.tag == "case"]
    if info is None:
        out.append((14, "switch on a field that is not defined in this scope"))
    elif info["array"]:
        out.append((14, "switch on an array"))
    elif info["kind"] not in ("int", "enum"):
        out.append((14, "switch on a %s field" % info["kind"]))
    any_opt, any_dummy = sc.reached_optional, sc.reached_dummy
    for i, c in enumerate(cases):
        default = is_true(c.attrs.get("default"))
        if default:
            if i == 0:
                out.append((15, "default case first or alone"))
        elif info is not None and not info["array"] and info["kind"] in ("int", "enum"):
            v = c.attrs.get("value")
            vk = text_kind(v)
            if info["kind"] == "int":
                if vk != "digits":
                    out.append((14, "case value of an integer switch is not a number"))
            else:
                if vk in ("digits", "int"):
                    if isinstance(v, str) and int(v) in DECLARED["E"]["ordinals"]:
                        out.append((14, "declared enum ordinal given as a number"))
                    elif not isinstance(v, str):
                        out.append(("cond", "numeric case value must not be a declared ordinal"))
                elif not (isinstance(v, str) and v in DECLARED["E"]["members"]):
                    out.append((14, "case value is not a member of the enum"))
        body = [x for x in c.children if x.tag != "comment"]
        sub = Scope(sc.in_chunked, sc.reached_optional, sc.reached_dummy)
        _walk(body, sub, out)
        any_opt = any_opt or sub.reached_optional
        any_dummy = any_dummy or sub.reached_dummy
    sc.reached_optional = any_opt
    sc.reached_dummy = any_dummy
