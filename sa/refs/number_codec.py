"""Reference semantics of the EO number codec (the documented positional formula).

Interpreted by engine B next to the repository's functions; never imported by them.
"""


def decode_ref(b):
    # sum of (byte - 1) * 253^i up to the first 0xFE, at most four bytes
    result = 0
    n = min(len(b), 4)
    for i in range(n):
        if b[i] == 0xFE:
            break
        result += (b[i] - 1) * 253 ** i
    return result
