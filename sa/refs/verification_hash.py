"""Reference: the game client's server-verification hash (published formula), with the
truncating (C-style) remainder written out through floor-mod for a positive divisor:

    trunc_rem(a, b) = a % b              if a >= 0 or a % b == 0
                    = a % b - b          otherwise              (b > 0)

Interpreted by engine B next to the repository's function; never imported by it.
"""


def trunc_rem(a, b):
    r = a % b
    if a < 0 and r != 0:
        return r - b
    return r


def hash_ref(challenge):
    c = challenge + 1
    return (
        110905
        + (trunc_rem(c, 9) + 1) * trunc_rem(11092004 - c, (trunc_rem(c, 11) + 1) * 119) * 119
        + trunc_rem(c, 2004)
    )
