"""Reference: the documented chunked-reading model of EoReader (DESIGN.md appendix D).

State (P, M, C) over immutable data of length L; first_break(data, c) = least i >= c with
data[i] == 0xFF, else L.  Interpreted by engine B next to the real class; never imported.
"""


class ModelReader:
    def __init__(self, data, position, mode, chunk_start):
        self.data = data
        self.P = position
        self.M = mode
        self.C = chunk_start

    def remaining(self):
        if self.M:
            return max(0, first_break(self.data, self.C) - self.P)
        return len(self.data) - self.P

    def read(self, n):
        # a read of n >= 0 bytes returns data[P : P+k], k = min(n, remaining), and advances by k
        k = min(n, self.remaining())
        start = self.P
        self.P = self.P + k
        return (start, k)

    def read_all(self):
        return self.read(self.remaining())

    def get_byte(self):
        if self.remaining() > 0:
            b = self.data[self.P]
            self.P = self.P + 1
            return b
        return 0

    def set_mode(self, mode):
        self.M = mode

    def next_chunk(self):
        if not self.M:
            raise RuntimeError("Not in chunked reading mode.")
        self.P = first_break(self.data, self.C)
        if self.P < len(self.data):
            self.P = self.P + 1
        self.C = self.P

    def slice_window(self, index, length):
        # defaults: index = P, length = max(0, L - index); window = data[b : b + min(L - b, length)], b = min(L, index)
        if index is None:
            index = self.P
        if length is None:
            length = max(0, len(self.data) - index)
        b = min(len(self.data), index)
        n = min(len(self.data) - b, length)
        return (b, n)
