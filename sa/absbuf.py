"""Engine B, part 3: abstract byte buffer of symbolic length with one *generic element*.

The buffer stands for every bytearray at once: its length is a symbol L >= 0 and the
analysis follows one arbitrary element (original index p, original value c in [0,255])
through index stores and `reverse()`.  A loop `for i in range(len(buf))` whose iterations
touch only their own index is analysed by executing its body once, for the iteration that
meets the generic element.  Loop-carried booleans (e.g. `flippy`) are modelled as an
uninterpreted function of (loop, iteration index) -- legitimate only when their
definitions do not depend on buffer contents, which a separate def-use rule checks.
"""
import ast

from . import affine as B
from .affine import Aff
from .core import AnalysisError
from .numeval import Native, _Break, _Continue


class ReachedLoop(AnalysisError):
    """Evaluation reached a loop over the buffer that is not of the per-element form."""


class DerivedBuf:
    """Element-wise image of an abstract buffer (e.g. buf.translate(table)): same length and
    positions, the generic element's value replaced."""

    def __init__(self, parent, val):
        self.parent, self.val = parent, val

    def length(self):
        return self.parent.L


class AbsBuf:
    def __init__(self, name="buf", lo_len=0):
        self.name = name
        self.L = B.fresh("len(%s)" % name, lo_len, None)
        self.p = B.fresh("p", 0, None)  # original index of the generic element
        B.assume_ge0(self.L - 1 - self.p)
        self.c = B.fresh("c", 0, 255)  # its original value
        self.idx = self.p  # current index of the generic element
        self.val = self.c  # current value
        self.events = []  # ("store", own|foreign) / ("reverse",) / ("resize", what) / ("load-foreign",)
        self.other = {}
        self.probe = None  # while a loop body is probed for the indices it touches: the list of index forms
        self.cursor_mode = False  # inside the one iteration of a cursor loop that meets the generic element
        self.in_element_loop = 0  # inside the generic iteration of a per-element loop (its own index is the element's)

    # ---- protocol used by numeval
    def length(self):
        return self.L

    def abstract_isinstance(self, c):
        return getattr(c, "name", None) in ("bytearray", "bytes", "object")

    def truth(self, fr, node):
        return not B.decide_eq0(self.L, "buffer is empty")

    def contains(self, fr, x, node):
        """`x in buf` for one byte value: there is a first occurrence."""
        needle = _one_byte(x)
        if needle is None:
            raise AnalysisError("engine B: membership test of %r in an abstract buffer" % (x,))
        return fr.compare(ast.GtE(), FindResult(self, needle, Aff(0)).number(), 0, node)

    def _is_generic(self, k):
        r = B.prove_eq0(Aff.of(k) - self.idx)
        if r is None and not self.in_element_loop and not B.cur().closed:
            # straight-line code at some other fixed index: either that is where the generic element sits, or not
            r = B.decide_eq0(Aff.of(k) - self.idx, "%s[%r] is the generic element" % (self.name, k))
        return r is True

    def _depends_on_generic(self, v):
        """Does the value derive from the generic element's original value?"""
        if not isinstance(v, Aff):
            return False
        csym = list(self.c.t)[0]
        return csym in B._support(B.norm(v))

    def load_index(self, fr, k, node):
        if self.probe is not None:
            self.probe.append(Aff.of(k))
            return B.fresh("probe", 0, 255)
        if self._is_generic(k):
            return self.val
        self.events.append(("load-foreign" if self.in_element_loop and not self.cursor_mode else "load-foreign-fixed", getattr(node, "lineno", 0)))
        return B.uninterp("%s[]" % self.name, [Aff.of(k)], 0, 255)

    def store_index(self, fr, k, v, node):
        if self.probe is not None:
            self.probe.append(Aff.of(k))
            return
        if self._is_generic(k):
            self.val = v
            self.events.append(("store", "own", getattr(node, "lineno", 0)))
        elif self.cursor_mode and self._depends_on_generic(v):
            # the generic element itself is written to another slot (a swap / a move): it lives there from now on
            self.idx = Aff.of(k)
            self.val = v
            self.events.append(("store", "moved", getattr(node, "lineno", 0)))
        else:
            self.events.append(("store", "foreign" if self.in_element_loop and not self.cursor_mode else "foreign-fixed", getattr(node, "lineno", 0)))

    def load_slice(self, fr, lo, hi, node):
        raise AnalysisError("engine B: slice of an abstract buffer at line %d" % getattr(node, "lineno", 0))

    def store_slice(self, fr, lo, hi, v, node):
        if lo is None and hi is None and isinstance(v, DerivedBuf) and v.parent is self:
            self.val = v.val  # whole-buffer replacement by an element-wise image: same length
            self.events.append(("store", "own", getattr(node, "lineno", 0)))
            return
        self.events.append(("resize", "slice-store", getattr(node, "lineno", 0)))

    def translate(self, table, node):
        """Element-wise table lookup; the generic value is split into the runs on which
        table[x] - x is constant, so the result stays affine on every path."""
        if not (isinstance(table, list) and len(table) == 256 and all(isinstance(x, int) for x in table)):
            raise AnalysisError("engine B: translate() with a table that is not a concrete 256-entry table")
        runs = []
        for x in range(256):
            d = table[x] - x
            if runs and runs[-1][2] == d:
                runs[-1][1] = x
            else:
                runs.append([x, x, d])
        for lo, hi, d in runs:
            if B.decide_ge0(Aff.of(self.val) - lo, "translate: value >= %d" % lo) and \
                    B.decide_ge0(Aff(hi) - Aff.of(self.val), "translate: value <= %d" % hi):
                return DerivedBuf(self, Aff.of(self.val) + d)
        raise B.DeadPath()

    def getattr(self, fr, attr, node):
        if attr == "reverse":
            def rev(ev, a, k, n):
                self.idx = self.L - 1 - self.idx
                self.events.append(("reverse", getattr(node, "lineno", 0)))
            return Native(rev, "bytearray.reverse")
        if attr == "translate":
            return Native(lambda ev, a, k, n: self.translate(a[0], node), "bytearray.translate")
        if attr == "isascii":
            def isascii(ev, a, k, n):
                # a fact about every element: on the True branch the generic element is below 128 too
                r = B.cur().choose("%s.isascii()" % self.name)
                if r:
                    B.assume_ge0(Aff(127) - Aff.of(self.val))
                    B._check_alive()
                return r
            return Native(isascii, "bytearray.isascii")
        if attr == "find":
            def find(ev, a, k, n):
                needle = _one_byte(a[0] if a else None)
                if needle is None or len(a) > 2 or k:
                    raise AnalysisError("engine B: bytearray.find(%r) on an abstract buffer" % (a,))
                return FindResult(self, needle, Aff.of(a[1]) if len(a) > 1 else Aff(0))
            return Native(find, "bytearray.find")
        if attr == "replace":
            def replace(ev, a, k, n):
                old, new = _one_byte(a[0] if a else None), _one_byte(a[1] if len(a) > 1 else None)
                if old is None or new is None or len(a) > 2 or k:
                    # anything but byte-for-byte replacement may change the length
                    self.events.append(("resize", "replace", getattr(node, "lineno", 0)))
                    return DerivedBuf(self, B.fresh("replaced", 0, 255))
                if B.decide_eq0(Aff.of(self.val) - old, "replace: element is the old byte"):
                    return DerivedBuf(self, Aff(new))
                return DerivedBuf(self, self.val)
            return Native(replace, "bytearray.replace")
        if attr in ("ljust", "rjust"):
            def just(ev, a, k, n):
                from .segbuf import SegBuf
                width = Aff.of(a[0])
                fill = _one_byte(a[1]) if len(a) > 1 else 0x20
                if fill is None:
                    raise AnalysisError("engine B: bytearray.%s with fill %r" % (attr, a[1:]))
                if not B.decide_ge0(width - self.L - 1, "%s: width > len" % attr):
                    return SegBuf([("abs", self)], attr)
                pad = ("const", fill, width - self.L)
                return SegBuf([("abs", self), pad] if attr == "ljust" else [pad, ("abs", self)], attr)
            return Native(just, "bytearray." + attr)
        if attr in ("append", "extend", "insert", "pop", "clear", "remove"):
            def resize(ev, a, k, n):
                self.events.append(("resize", attr, getattr(node, "lineno", 0)))
            return Native(resize, "bytearray." + attr)
        raise AnalysisError("engine B: bytearray.%s on an abstract buffer" % attr)

    def resized(self):
        return [e for e in self.events if e[0] == "resize"]

    def abstract_iter(self, fr, st):
        BufIter(self, False).abstract_iter(fr, st)


def _one_byte(x):
    """0xFF / b"\xff" / [255] -> 255; anything else -> None."""
    if isinstance(x, bool):
        return None
    if isinstance(x, int) and 0 <= x <= 255:
        return x
    if isinstance(x, Aff):
        c = B.const_of(x)
        return int(c) if c is not None and 0 <= c <= 255 else None
    if isinstance(x, (list, tuple)) and len(x) == 1:
        return _one_byte(x[0])
    return None


class FindResult:
    """What buf.find(needle, start) returned: an index holding the needle, or -1.  Only the find-driven loop
    `i = buf.find(x); while TEST(i): ...buf[i]...; i = buf.find(x, i + 1)` gives it a meaning."""

    def __init__(self, buf, needle, start):
        self.buf, self.needle, self.start = buf, needle, start

    def __repr__(self):
        return "<%s.find(%#x, %r)>" % (self.buf.name, self.needle, B.norm(self.start))

    def number(self):
        """The result as a number, related to the generic element: -1 (then the element is no occurrence at or after the
        start), the element's own index (then it holds the needle), an earlier index (nothing is learnt about the
        element) or a later one (then the element is no occurrence at or after the start: the result is the first)."""
        if getattr(self, "_n", None) is not None:
            return self._n
        buf = self.buf
        if not isinstance(buf, AbsBuf):
            raise AnalysisError("engine B: find() result of %r used as a number" % (buf,))
        r = B.fresh("%s.find" % buf.name, -1, None)
        B.assume_ge0(Aff.of(buf.L) - 1 - r)
        occurrence = B.decide_eq0(Aff.of(buf.val) - self.needle, "generic element holds the searched byte") \
            and B.decide_ge0(Aff.of(buf.idx) - self.start, "generic element at or after the search start")
        if B.decide_eq0(r + 1, "find() found nothing"):
            if occurrence:
                raise B.DeadPath()
        else:
            B.assume_ge0(r - self.start)
            if B.decide_eq0(r - buf.idx, "find() found the generic element"):
                if not occurrence:
                    raise B.DeadPath()
            elif B.decide_ge0(r - buf.idx - 1, "find() found a later element"):
                if occurrence:
                    raise B.DeadPath()
        self._n = r
        return r

    def compare(self, fr, op, other, node):
        return fr.compare(op, self.number(), other, node)


def find_loop(fr, st, ivar):
    """The loop visits the occurrences of the needle in ascending order for as long as its test holds.  For the generic
    element: not an occurrence (or before the search start) -> never visited; an occurrence -> either some occurrence
    at or before it fails the test (the loop has stopped: not visited) or it is visited and the body runs with the
    loop variable = its position."""
    fres = fr.env[ivar]
    buf, needle = fres.buf, fres.needle
    if st.orelse or not st.body:
        raise AnalysisError("engine B: find-driven loop with else at line %d" % st.lineno)
    last = st.body[-1]
    assigned = set(_assigned_names(st.body))
    if assigned != {ivar}:
        raise AnalysisError("engine B: find-driven loop at line %d assigns %s" % (st.lineno, sorted(assigned)))
    if not (isinstance(last, ast.Assign) and len(last.targets) == 1 and isinstance(last.targets[0], ast.Name) and last.targets[0].id == ivar):
        raise AnalysisError("engine B: find-driven loop at line %d does not end with the next find" % st.lineno)
    # the loop must stop when nothing is found
    fr.env[ivar] = -1
    if fr.truth(fr.expr(st.test), st.test):
        raise AnalysisError("engine B: find-driven loop at line %d keeps running after find() returned -1" % st.lineno)
    after = B.fresh("%s after loop@%d" % (ivar, st.lineno), -1, None)

    def check_refind(at):
        fr.env[ivar] = at
        nxt = fr.expr(last.value)
        if not (isinstance(nxt, FindResult) and nxt.buf is buf and nxt.needle == needle and B.is_zero(nxt.start - at - 1)):
            raise AnalysisError("engine B: find-driven loop at line %d: the next search is not find(same byte, %s + 1)" % (st.lineno, ivar))

    visited = B.decide_eq0(Aff.of(buf.val) - needle, "generic element holds the searched byte") \
        and B.decide_ge0(Aff.of(buf.idx) - fres.start, "generic element at or after the search start")
    if visited:
        j = B.fresh("occurrence<=p@%d" % st.lineno, 0, None)
        B.assume_ge0(j - fres.start)
        B.assume_ge0(Aff.of(buf.idx) - j)
        fr.env[ivar] = j
        if not fr.truth(fr.expr(st.test), st.test):
            visited = False  # an occurrence at or before the generic element fails the test: the loop has stopped
        else:
            fr.env[ivar] = buf.idx
            if not fr.truth(fr.expr(st.test), st.test):
                raise B.DeadPath()  # the generic element itself fails the test: the case above with j = p
    if visited:
        fr.env[ivar] = buf.idx
        try:
            fr.block(st.body[:-1])
        except (_Break, _Continue):
            raise AnalysisError("engine B: break/continue in a find-driven loop at line %d" % st.lineno)
        check_refind(Aff.of(buf.idx))
    else:
        k = B.fresh("k@%d" % st.lineno, 0, None)
        check_refind(k)
    fr.env[ivar] = after


def cursor_loop(fr, st):
    """while TEST(cursors): BODY; cursor += const ...   over an abstract buffer.

    Every iteration touches the buffer at indices that are affine in the iteration number k (found by running the
    body speculatively at a symbolic k, helper calls included, under every outcome of its content tests).  The
    generic element sits at index p: the iterations that touch p are the integer solutions k in [lo, T) of A(k) = p
    over the touched index forms A.  With none, the loop leaves the element alone; with one, the statements of the
    body that can meet the element are executed for that iteration (a value derived from the element that is stored
    to another slot moves the element there, and the later iterations are solved again for its new place); with two
    different ones the loop is refused."""
    from .numeval import PyRaise
    bufs = [b for b in getattr(fr.ev, "abs_bufs", []) if isinstance(b, AbsBuf)]
    if len(bufs) != 1 or st.orelse:
        return False
    buf = bufs[0]
    counters, rest = {}, []
    for b in st.body:
        if isinstance(b, ast.AugAssign) and isinstance(b.target, ast.Name) and isinstance(b.op, (ast.Add, ast.Sub)) \
                and isinstance(fr.env.get(b.target.id), (int, Aff)) and not isinstance(fr.env.get(b.target.id), bool):
            d = fr.expr(b.value)
            c = B.const_of(Aff.of(d)) if isinstance(d, (int, Aff)) else None
            if c is None:
                return False
            counters[b.target.id] = counters.get(b.target.id, 0) + (int(c) if isinstance(b.op, ast.Add) else -int(c))
        else:
            if counters:
                return False  # statements after a cursor update would see the next iteration's cursor
            rest.append(b)
    if not counters or not rest:
        return False
    assigned = set(_assigned_names(rest))
    if assigned & set(counters):
        return False
    t = st.test
    if not (isinstance(t, ast.Compare) and len(t.ops) == 1 and isinstance(t.ops[0], (ast.Lt, ast.LtE, ast.Gt, ast.GtE))):
        return False
    entry = dict(fr.env)
    for n in assigned:
        if n in entry and any(isinstance(x, ast.Name) and x.id == n and isinstance(x.ctx, ast.Load) for b in rest for x in ast.walk(b)):
            # might be read before it is written in an iteration: carried state other than the cursors
            first = min((x.lineno, x.col_offset, isinstance(x.ctx, ast.Store)) for b in rest for x in ast.walk(b) if isinstance(x, ast.Name) and x.id == n)
            if not first[2]:
                return False

    def margin(env):
        fr.env = env
        a, b2 = Aff.of(fr.expr(t.left)), Aff.of(fr.expr(t.comparators[0]))
        return {ast.Lt: b2 - a - 1, ast.LtE: b2 - a, ast.Gt: a - b2 - 1, ast.GtE: a - b2}[type(t.ops[0])]
    try:
        g0 = margin(dict(entry))
        g1 = margin({n: (Aff.of(entry[n]) + counters[n] if n in counters else v) for n, v in entry.items()})
    except (TypeError, AnalysisError):
        fr.env = dict(entry)
        return False
    fr.env = dict(entry)
    gamma = B.const_of(g1 - g0)
    if gamma is None or gamma >= 0:
        return False
    if not B.decide_ge0(g0, "cursor loop@%d entered" % st.lineno):
        return True  # the loop does not run
    T = B.divmod_const(g0, int(-gamma))[0] + 1

    def at(k):
        return {n: (Aff.of(entry[n]) + Aff.of(k).scale(counters[n]) if n in counters else v) for n, v in entry.items()}
    # the body as independent groups of statements (one group when temporaries flow between statements)
    groups = [[b] for b in rest] if not assigned else [rest]
    kk = B.fresh("k?", 0, None)
    ksym = list(kk.t)[0]
    group_forms = []
    for g in groups:
        def probe(g=g):
            buf.probe = []
            fr.env = at(kk)
            try:
                fr.block(g)
                return ("ok", buf.probe)
            except (_Break, _Continue):
                return ("jump", buf.probe)
            except PyRaise:
                return ("raise", buf.probe)
            finally:
                buf.probe = None
                fr.env = dict(entry)
        runs, mark = B.speculate(probe)
        if any(r[0] != "ok" for r in runs):
            return False  # leaves the loop early, or may raise, depending on contents: not summarised
        forms = []
        for _, fs in runs:
            for a in fs:
                if any(s2 is not ksym and s2.id >= mark for s2 in B._support(a)):
                    raise AnalysisError("engine B: cursor loop at line %d indexes the buffer by something computed from its contents" % st.lineno)
                na = B.norm(a)
                if not any(B.is_zero(na - x) for x in forms):
                    forms.append(na)
        group_forms.append(forms)

    def solve(lo):
        """Iterations k in [lo, T) in which some index form equals the element's index."""
        sols = []
        for gi, forms in enumerate(group_forms):
            for a in forms:
                a1 = a.t.get(ksym, 0)
                if a1 == 0:
                    # an index that does not move with the iteration: touched every time round
                    if B.decide_eq0(a - buf.idx, "fixed index of loop@%d is the generic element" % st.lineno):
                        raise AnalysisError("engine B: cursor loop at line %d touches one fixed index in every iteration" % st.lineno)
                    continue
                if a1 != int(a1):
                    raise AnalysisError("engine B: cursor loop index with a fractional stride")
                a1 = int(a1)
                a0 = a - Aff.of(kk).scale(a1)
                num = (Aff.of(buf.idx) - a0) if a1 > 0 else (a0 - Aff.of(buf.idx))
                q, r = B.divmod_const(num, abs(a1)) if abs(a1) > 1 else (num, Aff(0))
                if abs(a1) > 1 and not B.decide_eq0(r, "loop@%d: index form reaches the generic element" % st.lineno):
                    continue
                if not (B.decide_ge0(q - lo, "loop@%d: that iteration exists (k >= first)" % st.lineno)
                        and B.decide_ge0(T - 1 - q, "loop@%d: that iteration exists (k < trip count)" % st.lineno)):
                    continue
                hit = [x for x in sols if B.is_zero(q - x[0])]
                if hit:
                    hit[0][1].add(gi)
                else:
                    sols.append((q, {gi}))
        return sols
    lo = Aff(0)
    for _round in range(4):
        sols = solve(lo)
        if len(sols) > 1:
            raise AnalysisError("engine B: cursor loop at line %d touches the generic element in more than one iteration" % st.lineno)
        if not sols:
            break
        k1, gis = sols[0]
        before = buf.idx
        fr.env = at(k1)
        buf.cursor_mode = True
        try:
            for gi, g in enumerate(groups):
                if gi in gis:
                    fr.block(g)
        except (_Break, _Continue):
            raise AnalysisError("engine B: break/continue in a cursor loop at line %d" % st.lineno)
        finally:
            buf.cursor_mode = False
        if B.is_zero(Aff.of(buf.idx) - before):
            break
        for gi, forms in enumerate(group_forms):
            if gi not in gis and gi > min(gis):
                for a in forms:
                    here = a - Aff.of(kk).scale(a.t.get(ksym, 0)) + Aff.of(k1).scale(a.t.get(ksym, 0))
                    if B.prove_eq0(here - buf.idx) is not False:
                        raise AnalysisError("engine B: cursor loop at line %d may touch the moved element again in the same iteration" % st.lineno)
        lo = k1 + 1  # the element moved: a later iteration may meet it again in its new place
    else:
        raise AnalysisError("engine B: cursor loop at line %d keeps moving the generic element" % st.lineno)
    final = at(T)
    for n in assigned:
        final.pop(n, None)  # per-iteration temporaries: their last values are not tracked
    fr.env = final
    return True


class SymRange:
    """range(lo, hi) with a symbolic bound, iterated over an abstract buffer."""

    def __init__(self, lo, hi, bufs):
        self.lo, self.hi, self.bufs = lo, hi, bufs

    def abstract_iter(self, fr, st):
        """Execute the loop body once for the iteration that meets the generic element."""
        bufs = [b for b in self.bufs if isinstance(b, AbsBuf)]
        if len(bufs) != 1:
            raise AnalysisError("engine B: symbolic loop without a unique abstract buffer at line %d" % st.lineno)
        buf = bufs[0]
        if not isinstance(st.target, ast.Name):
            raise AnalysisError("engine B: loop target")
        # the iteration space must be exactly the buffer's index space
        if B.prove_eq0(Aff.of(self.lo)) is not True or B.prove_eq0(Aff.of(self.hi) - buf.L) is not True:
            # part of the index space: the loop meets the generic element exactly when its index lies in [lo, hi)
            if B.prove_ge0(Aff.of(self.lo)) is not True or B.prove_ge0(Aff.of(buf.L) - self.hi) is not True \
                    or any(n in fr.env for n in _assigned_names(st.body)):
                raise ReachedLoop("engine B: loop bounds are not range(len(buffer)) at line %d" % st.lineno)
            if not (B.decide_ge0(Aff.of(buf.idx) - self.lo, "loop@%d starts at or before the generic element" % st.lineno)
                    and B.decide_ge0(Aff.of(self.hi) - 1 - buf.idx, "loop@%d ends after the generic element" % st.lineno)):
                B.cur().events.append(("loop-skips-element", "loop@%d" % st.lineno))
                return
        per_element_loop(fr, st, buf, {st.target.id: lambda: buf.idx})


class BufIter:
    """`for c in buf` / `for i, c in enumerate(buf)`: the same per-element loop, other targets."""

    def __init__(self, buf, enumerated, start=0):
        self.buf, self.enumerated, self.start = buf, enumerated, start

    def abstract_iter(self, fr, st):
        buf = self.buf
        if self.enumerated:
            t = st.target
            if not (isinstance(t, ast.Tuple) and len(t.elts) == 2 and all(isinstance(x, ast.Name) for x in t.elts)):
                raise AnalysisError("engine B: enumerate target at line %d" % st.lineno)
            if B.prove_eq0(Aff.of(self.start)) is not True:
                raise ReachedLoop("engine B: enumerate(buffer, start) with a non-zero start at line %d" % st.lineno)
            binds = {t.elts[0].id: lambda: buf.idx, t.elts[1].id: lambda: buf.val}
        else:
            if not isinstance(st.target, ast.Name):
                raise AnalysisError("engine B: loop target")
            binds = {st.target.id: lambda: buf.val}
        per_element_loop(fr, st, buf, binds)


def per_element_loop(fr, st, buf, binds):
    if True:
        if st.orelse:
            raise AnalysisError("engine B: for-else over an abstract buffer")
        assigned = _assigned_names(st.body)
        carried = [n for n in assigned if n in fr.env and n not in binds]
        loop_id = "loop@%d" % st.lineno
        pre = {}
        for n in carried:
            v = fr.env[n]
            if isinstance(v, bool):
                # value of the carried boolean at iteration idx: uninterpreted function of (loop, idx)
                key = ("carried", loop_id, n, B.norm(Aff.of(buf.idx)).key())
                if key not in B.cur().memo:
                    B.cur().memo[key] = B.cur().choose("%s at iteration %r of %s" % (n, buf.idx, loop_id))
                fr.env[n] = B.cur().memo[key]
                pre[n] = fr.env[n]
            else:
                raise AnalysisError("engine B: non-boolean loop-carried variable %s at line %d" % (n, st.lineno))
        for name, get in binds.items():
            fr.env[name] = get()
        buf.in_element_loop += 1
        try:
            fr.block(st.body)
        except _Continue:
            pass  # ends this iteration only: the generic iteration is complete
        except _Break:
            raise AnalysisError("engine B: break in a per-element loop at line %d" % st.lineno)
        finally:
            buf.in_element_loop -= 1
        B.cur().events.append(("loop", loop_id, {n: (pre[n], fr.env.get(n)) for n in carried}))
        # after the loop the carried variables hold their final-iteration values: unknown
        for n in carried:
            fr.env[n] = B.cur().choose("%s after %s" % (n, loop_id))


def _assigned_names(body):
    out = []
    for st in body:
        for n in ast.walk(st):
            if isinstance(n, ast.Name) and isinstance(n.ctx, ast.Store) and n.id not in out:
                out.append(n.id)
    return out


def sym_range_builtin(ev, args, kw, node):
    """Replacement for range(): concrete when the bounds are, SymRange otherwise."""
    vals = []
    symbolic = False
    for a in args:
        if isinstance(a, Aff):
            a = B.norm(a)
            if a.is_const():
                a = int(a.c)
            else:
                symbolic = True
        vals.append(a)
    if not symbolic:
        return range(*vals)
    if len(vals) == 1:
        lo, hi = 0, vals[0]
    elif len(vals) == 2:
        lo, hi = vals
    else:
        raise AnalysisError("engine B: symbolic range with a step")
    return SymRange(lo, hi, getattr(ev, "abs_bufs", []))


def content_independent(fn, buf_param, var):
    """Def-use rule: inside `fn`, no definition of `var` reads the buffer `buf_param`'s
    contents, directly, through another variable, or through control dependence.
    Returns (ok, reason)."""
    tainted = set()
    changed = True

    def reads_contents(e):
        for n in ast.walk(e):
            if isinstance(n, ast.Subscript) and isinstance(n.value, ast.Name) and n.value.id == buf_param:
                return True
            if isinstance(n, ast.Name) and n.id in tainted:
                return True
            if isinstance(n, ast.Call):
                # the buffer passed whole to anything but len() may leak contents
                fname = n.func.id if isinstance(n.func, ast.Name) else None
                for a in n.args:
                    if isinstance(a, ast.Name) and a.id == buf_param and fname != "len":
                        return True
        return False

    def visit(body, ctrl_tainted):
        """-> set of escape kinds ('continue', 'break', 'return') taken under a content-dependent condition: what
        follows them is control-dependent on the contents too."""
        nonlocal changed
        esc = set()
        for st in body:
            if esc:
                ctrl_tainted = True
            if isinstance(st, (ast.Continue, ast.Break, ast.Return, ast.Raise)):
                if ctrl_tainted:
                    esc.add({ast.Continue: "continue", ast.Break: "break"}.get(type(st), "return"))
            elif isinstance(st, (ast.Assign, ast.AugAssign, ast.AnnAssign)):
                val = st.value
                targets = st.targets if isinstance(st, ast.Assign) else [st.target]
                t = val is not None and reads_contents(val) or ctrl_tainted
                if isinstance(st, ast.AugAssign) and isinstance(st.target, ast.Name) and st.target.id in tainted:
                    t = True
                for tg in targets:
                    if isinstance(tg, ast.Name) and t and tg.id not in tainted:
                        tainted.add(tg.id)
                        changed = True
            elif isinstance(st, ast.If):
                c = ctrl_tainted or reads_contents(st.test)
                esc |= visit(st.body, c)
                esc |= visit(st.orelse, c)
            elif isinstance(st, (ast.For, ast.While)):
                c = ctrl_tainted or (reads_contents(st.iter) if isinstance(st, ast.For) else reads_contents(st.test))
                if isinstance(st, ast.For) and c:
                    for n in ast.walk(st.target):
                        if isinstance(n, ast.Name) and n.id not in tainted:
                            tainted.add(n.id)
                            changed = True
                inner = visit(st.body, c)
                if inner & {"break", "return"}:
                    visit(st.body, True)  # later iterations run only if the contents allowed it
                    inner |= visit(st.orelse, True)
                else:
                    inner |= visit(st.orelse, c)
                esc |= inner & {"return"}
                if "break" in inner:
                    ctrl_tainted = True  # whether and when the loop was left depends on the contents
            elif isinstance(st, ast.Try):
                esc |= visit(st.body, ctrl_tainted)
                for h in st.handlers:
                    esc |= visit(h.body, ctrl_tainted)
                esc |= visit(st.orelse, ctrl_tainted)
                esc |= visit(st.finalbody, ctrl_tainted)
            elif isinstance(st, ast.With):
                esc |= visit(st.body, ctrl_tainted)
        return esc

    while changed:
        changed = False
        visit(fn.body, False)
    return (var not in tainted), ("%s depends on the contents of %s" % (var, buf_param) if var in tainted else "")
