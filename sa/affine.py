"""Engine B, part 1: the numeric abstract domain.

Affine forms over integer symbols with intervals; a path condition of affine
constraints; div/mod identities as substitutions (x := M*q + r); uninterpreted
symbols for products and named functions; entailment by Fourier-Motzkin
elimination (the closure of a small polyhedral domain -- no SMT, no search).

Paths are explored by *replay*: an undecided test asks the current path for a
choice; the explorer re-runs the task with every choice vector.
"""
import itertools
import math
import os
import time
from fractions import Fraction as Fr

from .core import AnalysisError


class DeadPath(Exception):
    """The path condition became unsatisfiable: abandon the path."""


class Truncated(Exception):
    """A loop whose trip count depends on abstract data was unrolled to the bound; the path is
    abandoned and counted.  A run with truncated paths may report violations found on the
    explored (feasible) paths, but can never conclude that the property holds."""


truncated_paths = []


class Sym:
    _n = itertools.count()

    def __init__(self, name, lo=None, hi=None):
        self.name = name
        self.lo = lo
        self.hi = hi
        self.id = next(Sym._n)

    def __repr__(self):
        return self.name


class Aff:
    __slots__ = ("c", "t")

    def __init__(self, c=0, t=None):
        self.c = Fr(c)
        self.t = {k: Fr(v) for k, v in (t or {}).items() if v != 0}

    @staticmethod
    def of(x):
        if isinstance(x, Aff):
            return x
        if isinstance(x, bool):
            return Aff(int(x))
        if isinstance(x, (int, Fr)):
            return Aff(x)
        raise AnalysisError("engine B: not a numeric value: %r" % (x,))

    @staticmethod
    def sym(s):
        return Aff(0, {s: 1})

    def __add__(a, b):
        b = Aff.of(b)
        t = dict(a.t)
        for k, v in b.t.items():
            t[k] = t.get(k, 0) + v
        return Aff(a.c + b.c, t)

    __radd__ = __add__

    def __neg__(a):
        return Aff(-a.c, {k: -v for k, v in a.t.items()})

    def __sub__(a, b):
        return a + (-Aff.of(b))

    def __rsub__(a, b):
        return Aff.of(b) - a

    def scale(a, k):
        k = Fr(k)
        return Aff(a.c * k, {s: v * k for s, v in a.t.items()})

    def is_const(a):
        return not a.t

    def key(a):
        return (a.c, tuple(sorted((s.id, v) for s, v in a.t.items())))

    def box(a):
        lo = hi = a.c
        for s, v in a.t.items():
            l, h = s.lo, s.hi
            if v > 0:
                lo = None if (lo is None or l is None) else lo + v * l
                hi = None if (hi is None or h is None) else hi + v * h
            else:
                lo = None if (lo is None or h is None) else lo + v * h
                hi = None if (hi is None or l is None) else hi + v * l
        return lo, hi

    def __repr__(a):
        parts = []
        for k, v in sorted(a.t.items(), key=lambda kv: kv[0].id):
            parts.append(("%s" % k) if v == 1 else ("-%s" % k) if v == -1 else "%s*%s" % (v, k))
        if a.c or not parts:
            parts.append(str(a.c))
        return "{" + " + ".join(parts) + "}"


class Path:
    def __init__(self, vec=()):
        self.vec = list(vec)
        self.pos = 0
        self.log = []
        self.cons = []  # forms known >= 0
        self.subst = {}  # Sym -> Aff
        self.memo = {}
        self.monos = {}  # monomial symbol -> (factor symbol, factor symbol)
        self.entries = []  # semantic memo: (tag, [argument forms], extra, result)
        self.events = []  # free-form records made by the interpreter (mutations, raises, ...)
        self.closed = False  # set when the task has returned: later queries must not fork
        self.dead = False  # found infeasible after it was closed

    def choose(self, label):
        if self.closed:
            raise AnalysisError("engine B: a query forked after its path was closed (%s); "
                                "forking evaluations belong inside the explored task" % label)
        if self.pos < len(self.vec):
            v = self.vec[self.pos]
        else:
            v = False
            self.vec.append(v)
        self.pos += 1
        self.log.append((label, v))
        return v


_STARTED = time.process_time()  # CPU time of this process: the budget must not depend on the machine's load
BUDGET_S = int(os.environ.get("VERIF_BUDGET_S", "420"))
P = None  # current path (set by explore)
MAX_FM = 3000


def cur():
    return P


def _needs_rewrite(s, depth=0):
    if s in P.subst:
        return True
    if s in P.monos and depth < 8:
        return any(_needs_rewrite(f, depth + 1) for f in P.monos[s])
    return False


def norm(a):
    """Polynomial normal form: substitutions applied, also inside monomials."""
    a = Aff.of(a)
    for _ in range(200):
        changed = False
        out = Aff(a.c)
        for s, v in a.t.items():
            if s in P.subst:
                out = out + P.subst[s].scale(v)
                changed = True
            elif s in P.monos and _needs_rewrite(s):
                f1, f2 = P.monos[s]
                out = out + _mul_forms(norm(Aff.sym(f1)), norm(Aff.sym(f2))).scale(v)
                changed = True
            else:
                out = out + Aff(0, {s: v})
        a = out
        if not changed:
            return a
    raise AnalysisError("engine B: substitution cycle")


def memo_get(tag, args, extra=None):
    """Semantic memo: an entry matches when its arguments equal the requested ones under the
    *current* substitution (so the same value met twice -- in the code and in a reference
    formula, before and after further identities were learnt -- is one symbol)."""
    want = tuple(norm(x).key() for x in args)
    for t, a, e, r in P.entries:
        if t == tag and e == extra and len(a) == len(args) and tuple(norm(x).key() for x in a) == want:
            return r
    return None


def memo_put(tag, args, extra, result):
    P.entries.append((tag, [Aff.of(x) for x in args], extra, result))
    return result


# ---------------------------------------------------------------- Fourier-Motzkin
def _fm_bounds(goal):
    """(lb, ub) of `goal` over the polyhedron of the path; None = unbounded/unknown.
    Returns ('dead', 'dead') when the path condition is unsatisfiable."""
    goal = norm(goal)
    cons = [norm(c) for c in P.cons]
    # relevant symbols: connected component of the goal's symbols through constraints
    rel = set(goal.t)
    changed = True
    while changed:
        changed = False
        for c in cons:
            if rel & set(c.t) and not set(c.t) <= rel:
                rel |= set(c.t)
                changed = True
    T = Sym("$t")
    rows = []  # dict sym->coef, const ; meaning sum + const >= 0

    def add(form):
        rows.append((dict(form.t), form.c))

    for c in cons:
        if set(c.t) & rel or not c.t:
            add(c)
    for s in rel:
        if s.lo is not None:
            add(Aff.sym(s) - s.lo)
        if s.hi is not None:
            add(Aff(s.hi) - Aff.sym(s))
    g = Aff.sym(T) - goal
    add(g)
    add(-g)
    rows = _dedupe(rows)
    todo = set(rel)
    while todo:
        best, bestcost = None, None
        for s in todo:
            p = sum(1 for r, _ in rows if r.get(s, 0) > 0)
            n = sum(1 for r, _ in rows if r.get(s, 0) < 0)
            cost = p * n - p - n
            if bestcost is None or cost < bestcost:
                best, bestcost = s, cost
        s = best
        todo.discard(s)
        pos = [(r, c) for r, c in rows if r.get(s, 0) > 0]
        neg = [(r, c) for r, c in rows if r.get(s, 0) < 0]
        rest = [(r, c) for r, c in rows if r.get(s, 0) == 0]
        for rp, cp in pos:
            for rn, cn in neg:
                a, b = rp[s], -rn[s]
                nr = {}
                for k, v in rp.items():
                    if k is not s:
                        nr[k] = nr.get(k, 0) + v * b
                for k, v in rn.items():
                    if k is not s:
                        nr[k] = nr.get(k, 0) + v * a
                nr = {k: v for k, v in nr.items() if v != 0}
                rest.append((nr, cp * b + cn * a))
        rows = _dedupe(rest)
        if len(rows) > MAX_FM:
            return None, None
    lb = ub = None
    for r, c in rows:
        if not r:
            if c < 0:
                return "dead", "dead"
            continue
        a = r[T]
        bound = -c / a
        if a > 0:
            lb = bound if lb is None else max(lb, bound)
        else:
            ub = bound if ub is None else min(ub, bound)
    if lb is not None and ub is not None and lb > ub:
        return "dead", "dead"
    return lb, ub


def _dedupe(rows):
    best = {}
    for r, c in rows:
        if not r:
            if c < 0:
                return [({}, Fr(-1))]
            continue
        items = sorted(r.items(), key=lambda kv: kv[0].id)
        lead = abs(items[0][1])
        k = tuple((s.id, v / lead) for s, v in items)
        cc = c / lead
        if k not in best or cc < best[k][1]:
            best[k] = ({s: v / lead for s, v in items}, cc)
    return list(best.values())


def bounds(a):
    """Best known (lb, ub) of a form on the current path (integers where finite)."""
    a = norm(a)
    if a.is_const():
        return a.c, a.c
    lo, hi = a.box()
    if P.cons or True:
        flo, fhi = _fm_bounds(a)
        if flo == "dead":
            if P.closed:
                # the path turned out to be infeasible only now (a query brought the contradiction out): whatever is
                # asked about it holds vacuously
                P.dead = True
                return Fr(0), Fr(0)
            raise DeadPath()
        if flo is not None:
            lo = flo if lo is None else max(lo, flo)
        if fhi is not None:
            hi = fhi if hi is None else min(hi, fhi)
    # every form denotes an integer
    if lo is not None:
        lo = Fr(math.ceil(lo))
    if hi is not None:
        hi = Fr(math.floor(hi))
    return lo, hi


def prove_ge0(a):
    """True / False (proved negative) / None, without forking."""
    a = norm(a)
    if a.is_const():
        return a.c >= 0
    lo, hi = a.box()
    if lo is not None and lo >= 0:
        return True
    if hi is not None and hi < 0:
        return False
    lo, hi = bounds(a)
    if lo is not None and lo >= 0:
        return True
    if hi is not None and hi < 0:
        return False
    return None


def prove_eq0(a):
    a = norm(a)
    if a.is_const():
        return a.c == 0
    lo, hi = bounds(a)
    if lo is not None and hi is not None and lo == 0 and hi == 0:
        return True
    if (lo is not None and lo > 0) or (hi is not None and hi < 0):
        return False
    return None


def is_zero(a):
    """The form is zero on the current path (by normal form or by bounds); never forks."""
    d = norm(a)
    if d.is_const():
        return d.c == 0
    return prove_eq0(d) is True


def const_of(a):
    """The integer the form is pinned to on the current path, or None."""
    d = norm(a)
    if d.is_const():
        return d.c
    lo, hi = bounds(d)
    if lo is not None and lo == hi:
        return lo
    return None


def assume_ge0(a):
    a = norm(a)
    if a.is_const():
        if a.c < 0:
            raise DeadPath()
        return
    P.cons.append(a)
    if len(a.t) == 1:
        (s, v), = a.t.items()
        b = -a.c / v
        if v > 0:
            nb = math.ceil(b)
            s_lo = nb if s.lo is None else max(s.lo, nb)
            _set_box(s, s_lo, s.hi)
        else:
            nb = math.floor(b)
            s_hi = nb if s.hi is None else min(s.hi, nb)
            _set_box(s, s.lo, s_hi)


def _set_box(s, lo, hi):
    # symbols are shared between replays only through fresh creation, so narrowing in place is path-local
    if lo is not None and hi is not None and lo > hi:
        raise DeadPath()
    undo = getattr(P, "box_undo", None)
    if undo is not None:
        undo.append((s, s.lo, s.hi))
    s.lo, s.hi = lo, hi


def _support(form, seen=None):
    """Symbols a form depends on, looking through monomials and substitutions."""
    seen = set() if seen is None else seen
    for s in form.t:
        if s in seen:
            continue
        seen.add(s)
        if s in P.monos:
            for f in P.monos[s]:
                _support(norm(Aff.sym(f)), seen)
                seen.add(f)
    return seen


def _pick_for_substitution(a):
    """A plain symbol of `a` that the rest of `a` does not depend on (no cycles); prefers a
    unit coefficient and the youngest symbol.  None if there is no safe choice."""
    cands = [s for s in a.t if s not in P.monos]
    cands.sort(key=lambda s: (abs(a.t[s]) != 1, -s.id))
    for s in cands:
        rest = Aff(a.c, {k: w for k, w in a.t.items() if k is not s})
        if s not in _support(rest):
            return s
    return None


def assume_eq0(a):
    """Record a == 0, as a substitution when possible (keeps normal forms canonical)."""
    a = norm(a)
    if a.is_const():
        if a.c != 0:
            raise DeadPath()
        return
    pick = _pick_for_substitution(a)
    if pick is None:
        P.cons.append(a)
        P.cons.append(-a)
        return
    v = a.t[pick]
    rest = Aff(a.c, {k: w for k, w in a.t.items() if k is not pick})
    expr = rest.scale(Fr(-1) / v)  # pick = -(rest)/v
    _substitute(pick, expr)


def _substitute(s, expr):
    P.subst[s] = expr
    if s.lo is not None:
        assume_ge0(expr - s.lo)
    if s.hi is not None:
        assume_ge0(Aff(s.hi) - expr)


def decide_ge0(a, label):
    r = prove_ge0(a)
    if r is None:
        r = P.choose(label)
        if r:
            assume_ge0(a)
        else:
            assume_ge0(-Aff.of(a) - 1)
        _check_alive()
    return r


def decide_eq0(a, label):
    r = prove_eq0(a)
    if r is None:
        r = P.choose(label)
        if r:
            assume_eq0(a)
        else:
            # != 0 over the integers: > 0 or < 0
            if P.choose(label + " [>0]"):
                assume_ge0(Aff.of(a) - 1)
            else:
                assume_ge0(-Aff.of(a) - 1)
        _check_alive()
    return r


def _check_alive():
    lo, hi = _fm_bounds(Aff(0))
    if lo == "dead":
        raise DeadPath()


# ---------------------------------------------------------------- arithmetic with identities
def fresh(name, lo=None, hi=None):
    return Aff.sym(Sym(name, lo, hi))


def divmod_const(x, M):
    """Floor division and remainder by a positive constant, as the identity x = M*q + r."""
    M = int(M)
    if M <= 0:
        raise AnalysisError("engine B: division by non-positive constant %r" % M)
    x = norm(x)
    if x.is_const():
        if x.c.denominator != 1:
            raise AnalysisError("engine B: non-integer constant")
        return Aff(int(x.c) // M), Aff(int(x.c) % M)
    hit = memo_get("divmod", [x], M)
    if hit is not None:
        return hit
    # syntactic decomposition x = M*A + B with B in [0, M-1]
    A = Aff(0, {s: v / M for s, v in x.t.items() if v.denominator == 1 and v % M == 0})
    Bf = Aff(x.c, {s: v for s, v in x.t.items() if not (v.denominator == 1 and v % M == 0)})
    blo, bhi = bounds(Bf)
    if blo is not None and bhi is not None and blo // M == bhi // M:
        kk = int(blo // M)
        return memo_put("divmod", [x], M, (A + kk, Bf - kk * M))
    lo, hi = bounds(x)
    q = Sym("q(%r//%d)" % (x, M), None if lo is None else int(lo // M), None if hi is None else int(hi // M))
    r = Sym("r(%r%%%d)" % (x, M), 0, M - 1)
    qa, ra = Aff.sym(q), Aff.sym(r)
    res = memo_put("divmod", [x], M, (qa, ra))
    # solve x = M*q + r for one of x's symbols (unit coefficient, youngest plain symbol, no cycle)
    pick = _pick_for_substitution(x)
    if pick is None:
        e = qa.scale(M) + ra - x
        P.cons.append(e)
        P.cons.append(-e)
        return res
    v = x.t[pick]
    rest = Aff(x.c, {s: w for s, w in x.t.items() if s is not pick})
    _substitute(pick, (qa.scale(M) + ra - rest).scale(Fr(1) / v))
    return res


def mod_sym(x, m):
    """x % m for a modulus proved positive: fresh r with 0 <= r <= m-1 (Python floor semantics)."""
    x, m = norm(x), norm(m)
    if m.is_const():
        return divmod_const(x, int(m.c))[1]
    lo, mh = bounds(m)
    if lo is None or lo < 1:
        raise AnalysisError("engine B: modulus not provably positive: %r" % m)
    hit = memo_get("mod", [x, m])
    if hit is not None:
        return hit
    r = fresh("r(%r%%%r)" % (x, m), 0, None if mh is None else int(mh) - 1)
    assume_ge0(m - 1 - r)
    return memo_put("mod", [x, m], None, r)


def mul(a, b):
    """Product of two forms, expanded into monomials over their normal forms.  The interval
    product of the two factors is recorded as a fact about the expanded form (the expansion
    alone forgets that its monomials are correlated)."""
    na, nb = norm(a), norm(b)
    out = _mul_forms(na, nb)
    if not na.is_const() and not nb.is_const():
        (al, ah), (bl, bh) = bounds(na), bounds(nb)
        if None not in (al, ah, bl, bh):
            c = [x * y for x in (al, ah) for y in (bl, bh)]
            assume_ge0(out - min(c))
            assume_ge0(Aff(max(c)) - out)
    return out


def _mul_forms(na, nb):
    if na.is_const():
        return nb.scale(na.c)
    if nb.is_const():
        return na.scale(nb.c)
    out = Aff(na.c * nb.c)
    out = out + Aff(0, dict(nb.t)).scale(na.c) + Aff(0, dict(na.t)).scale(nb.c)
    for s1, v1 in na.t.items():
        for s2, v2 in nb.t.items():
            out = out + _mono(s1, s2).scale(v1 * v2)
    return out


def _mono(s1, s2):
    """A monomial of two symbols: an uninterpreted symbol (memoised, commutative) whose
    interval is the interval product of its factors at creation."""
    k = ("mono",) + tuple(sorted((s1.id, s2.id)))
    if k in P.memo:
        return P.memo[k]
    # register first: computing bounds normalises constraints, which may meet this very monomial
    ms = Sym("(%s*%s)" % (s1, s2), 0 if s1 is s2 else None, None)
    P.monos[ms] = (s1, s2)
    P.memo[k] = Aff.sym(ms)
    if s1 in P.subst or s2 in P.subst or s1 in P.monos or s2 in P.monos:
        (al, ah), (bl, bh) = (None, None), (None, None)  # rewritten by norm() anyway / keep it cheap
    else:
        (al, ah), (bl, bh) = (s1.lo, s1.hi), (s2.lo, s2.hi)
    if None not in (al, ah, bl, bh):
        c = [x * y for x in (al, ah) for y in (bl, bh)]
        ms.lo, ms.hi = int(min(c)), int(max(c))
    return P.memo[k]


def floordiv_sym(x, m, label="//"):
    """x // m for a modulus proved positive but not constant: q with x = m*q + (x % m).
    The product m*q is tied to x - r by a substitution, so `x - m*(x//m)` normalises to x % m."""
    nm = norm(m)
    if nm.is_const():
        return divmod_const(x, int(nm.c))[0]
    hit = memo_get("floordiv", [x, m])
    if hit is not None:
        return hit
    mlo, mhi = bounds(nm)
    if mlo is None or mlo < 1:
        raise AnalysisError("engine B: divisor not provably positive: %r" % nm)
    nonneg = decide_ge0(x, "%s: dividend>=0" % label)  # fixes the sign of the quotient
    r = mod_sym(x, m)
    xlo, xhi = bounds(x)
    qlo = qhi = None
    if nonneg:
        qlo = 0
        if xhi is not None:
            qhi = int(xhi // mlo)
    else:
        qhi = -1
        if xlo is not None:
            qlo = int(xlo // mlo)
    q = fresh("q(%r//%r)" % (norm(x), nm), qlo, qhi)
    memo_put("floordiv", [x, m], None, q)
    prod = mul(nm, q)
    assume_eq0(prod - (Aff.of(x) - r))
    return q


def uninterp(name, args, lo=None, hi=None):
    """Uninterpreted integer function of forms, memoised per path."""
    forms = [Aff.of(a) for a in args]
    hit = memo_get("fn:" + name, forms)
    if hit is not None:
        return hit
    r = fresh("%s(%s)" % (name, ", ".join(repr(norm(a)) for a in forms)), lo, hi)
    return memo_put("fn:" + name, forms, None, r)


def is_pow2(n):
    return n > 0 and n & (n - 1) == 0


def bit_and(x, mask):
    """x & (2^k - 1) for x >= 0."""
    if isinstance(x, int) and isinstance(mask, int):
        return x & mask
    if isinstance(mask, int) and is_pow2(mask + 1):
        if prove_ge0(x) is not True:
            raise AnalysisError("engine B: & on a possibly negative value")
        return divmod_const(x, mask + 1)[1]
    raise AnalysisError("engine B: unsupported & operand %r" % (mask,))


def bit_xor(x, bit):
    """x ^ 2^k for 0 <= x < 2^(k+1): flips one bit."""
    if isinstance(x, int) and isinstance(bit, int):
        return x ^ bit
    if isinstance(bit, int) and is_pow2(bit):
        lo, hi = bounds(x)
        if lo is None or hi is None or lo < 0 or hi >= 2 * bit:
            raise AnalysisError("engine B: ^ outside the single-bit range")
        h, _ = divmod_const(x, bit)
        return Aff.of(x) + bit - h.scale(2 * bit)
    raise AnalysisError("engine B: unsupported ^ operand %r" % (bit,))


# ---------------------------------------------------------------- exploration
def explore(task, max_paths=20000):
    """Run task() under every choice vector.  Yields (path, status, value) with
    status in {'ok','raise'}; dead paths are dropped.  `task` may raise PyRaise."""
    global P
    from .numeval import PyRaise  # late import (cycle)

    stack = [[]]
    out = []
    n = 0
    while stack:
        vec = stack.pop()
        P = Path(vec)
        n += 1
        if n > max_paths:
            raise AnalysisError("engine B: path explosion (> %d paths)" % max_paths)
        if time.process_time() - _STARTED > BUDGET_S:
            raise AnalysisError("engine B: analysis budget of %d s exhausted after %d paths of one exploration "
                                "(the code is outside what this abstract domain summarises)" % (BUDGET_S, n))
        try:
            res = ("ok", task())
        except PyRaise as r:
            res = ("raise", r)
        except DeadPath:
            res = None
        except Truncated as t:
            truncated_paths.append(str(t))
            res = None
        P.closed = True
        if res is not None:
            out.append((P, res[0], res[1]))
        for i in range(len(vec), len(P.log)):
            stack.append([v for _, v in P.log[:i]] + [True])
    return out


def set_path(p):
    global P
    P = p


def speculate(task, max_paths=400):
    """Run task() under every choice vector on throw-away copies of the current path: what it learns, assumes or
    creates does not reach the current path.  Returns (results, first symbol id created inside)."""
    global P
    outer = P
    mark = next(Sym._n)
    out, stack, n = [], [[]], 0
    try:
        while stack:
            vec = stack.pop()
            n += 1
            if n > max_paths:
                raise AnalysisError("engine B: path explosion inside a speculative run (> %d paths)" % max_paths)
            sub = Path(vec)
            sub.cons, sub.subst, sub.monos = list(outer.cons), dict(outer.subst), dict(outer.monos)
            sub.entries, sub.events = list(outer.entries), list(outer.events)
            sub.box_undo = []
            P = sub
            try:
                out.append(task())
            except (DeadPath, Truncated):
                pass
            finally:
                for sy, lo, hi in reversed(sub.box_undo):
                    sy.lo, sy.hi = lo, hi
                P = outer
            for i in range(len(vec), len(sub.log)):
                stack.append([v for _, v in sub.log[:i]] + [True])
    finally:
        P = outer
    return out, mark
