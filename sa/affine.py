"""Engine B, part 1: the numeric abstract domain.

Affine forms over integer symbols with intervals; a path condition of affine
constraints; div/mod identities as substitutions (x := M*q + r); uninterpreted
symbols for products and named functions; entailment by Fourier-Motzkin
elimination (the closure of a small polyhedral domain -- no SMT, no search).

Paths are explored by *replay*: an undecided test asks the current path for a
choice; the explorer re-runs the task with every choice vector.
"""
import itertools
import math
from fractions import Fraction as Fr

from .core import AnalysisError


class DeadPath(Exception):
    """The path condition became unsatisfiable: abandon the path."""


class Sym:
    _n = itertools.count()

    def __init__(self, name, lo=None, hi=None):
        self.name = name
        self.lo = lo
        self.hi = hi
        self.id = next(Sym._n)

    def __repr__(self):
        return self.name


class Aff:
    __slots__ = ("c", "t")

    def __init__(self, c=0, t=None):
        self.c = Fr(c)
        self.t = {k: Fr(v) for k, v in (t or {}).items() if v != 0}

    @staticmethod
    def of(x):
        if isinstance(x, Aff):
            return x
        if isinstance(x, bool):
            return Aff(int(x))
        if isinstance(x, (int, Fr)):
            return Aff(x)
        raise AnalysisError("engine B: not a numeric value: %r" % (x,))

    @staticmethod
    def sym(s):
        return Aff(0, {s: 1})

    def __add__(a, b):
        b = Aff.of(b)
        t = dict(a.t)
        for k, v in b.t.items():
            t[k] = t.get(k, 0) + v
        return Aff(a.c + b.c, t)

    __radd__ = __add__

    def __neg__(a):
        return Aff(-a.c, {k: -v for k, v in a.t.items()})

    def __sub__(a, b):
        return a + (-Aff.of(b))

    def __rsub__(a, b):
        return Aff.of(b) - a

    def scale(a, k):
        k = Fr(k)
        return Aff(a.c * k, {s: v * k for s, v in a.t.items()})

    def is_const(a):
        return not a.t

    def key(a):
        return (a.c, tuple(sorted((s.id, v) for s, v in a.t.items())))

    def box(a):
        lo = hi = a.c
        for s, v in a.t.items():
            l, h = s.lo, s.hi
            if v > 0:
                lo = None if (lo is None or l is None) else lo + v * l
                hi = None if (hi is None or h is None) else hi + v * h
            else:
                lo = None if (lo is None or h is None) else lo + v * h
                hi = None if (hi is None or l is None) else hi + v * l
        return lo, hi

    def __repr__(a):
        parts = []
        for k, v in sorted(a.t.items(), key=lambda kv: kv[0].id):
            parts.append(("%s" % k) if v == 1 else ("-%s" % k) if v == -1 else "%s*%s" % (v, k))
        if a.c or not parts:
            parts.append(str(a.c))
        return "{" + " + ".join(parts) + "}"


class Path:
    def __init__(self, vec=()):
        self.vec = list(vec)
        self.pos = 0
        self.log = []
        self.cons = []  # forms known >= 0
        self.subst = {}  # Sym -> Aff
        self.memo = _Memo()
        self.events = []  # free-form records made by the interpreter (mutations, raises, ...)
        self.closed = False  # set when the task has returned: later queries must not fork

    def choose(self, label):
        if self.closed:
            raise AnalysisError("engine B: a query forked after its path was closed (%s); "
                                "forking evaluations belong inside the explored task" % label)
        if self.pos < len(self.vec):
            v = self.vec[self.pos]
        else:
            v = False
            self.vec.append(v)
        self.pos += 1
        self.log.append((label, v))
        return v


class _Keys:
    """A memo entry is registered under the key of the form as written (stable between two
    evaluations of the same expression) and under its normal form at creation time."""

    def __init__(self, *keys):
        self.keys = keys


class _Memo(dict):
    def __contains__(self, k):
        if isinstance(k, _Keys):
            return any(dict.__contains__(self, x) for x in k.keys)
        return dict.__contains__(self, k)

    def __getitem__(self, k):
        if isinstance(k, _Keys):
            for x in k.keys:
                if dict.__contains__(self, x):
                    return dict.__getitem__(self, x)
            raise KeyError(k)
        return dict.__getitem__(self, k)

    def __setitem__(self, k, v):
        if isinstance(k, _Keys):
            for x in k.keys:
                dict.__setitem__(self, x, v)
        else:
            dict.__setitem__(self, k, v)


P = None  # current path (set by explore)
MAX_FM = 3000


def cur():
    return P


def norm(a):
    a = Aff.of(a)
    guard = 0
    while any(s in P.subst for s in a.t):
        out = Aff(a.c)
        for s, v in a.t.items():
            out = out + (P.subst[s].scale(v) if s in P.subst else Aff(0, {s: v}))
        a = out
        guard += 1
        if guard > 100:
            raise AnalysisError("engine B: substitution cycle")
    return a


# ---------------------------------------------------------------- Fourier-Motzkin
def _fm_bounds(goal):
    """(lb, ub) of `goal` over the polyhedron of the path; None = unbounded/unknown.
    Returns ('dead', 'dead') when the path condition is unsatisfiable."""
    goal = norm(goal)
    cons = [norm(c) for c in P.cons]
    # relevant symbols: connected component of the goal's symbols through constraints
    rel = set(goal.t)
    changed = True
    while changed:
        changed = False
        for c in cons:
            if rel & set(c.t) and not set(c.t) <= rel:
                rel |= set(c.t)
                changed = True
    T = Sym("$t")
    rows = []  # dict sym->coef, const ; meaning sum + const >= 0

    def add(form):
        rows.append((dict(form.t), form.c))

    for c in cons:
        if set(c.t) & rel or not c.t:
            add(c)
    for s in rel:
        if s.lo is not None:
            add(Aff.sym(s) - s.lo)
        if s.hi is not None:
            add(Aff(s.hi) - Aff.sym(s))
    g = Aff.sym(T) - goal
    add(g)
    add(-g)
    rows = _dedupe(rows)
    todo = set(rel)
    while todo:
        best, bestcost = None, None
        for s in todo:
            p = sum(1 for r, _ in rows if r.get(s, 0) > 0)
            n = sum(1 for r, _ in rows if r.get(s, 0) < 0)
            cost = p * n - p - n
            if bestcost is None or cost < bestcost:
                best, bestcost = s, cost
        s = best
        todo.discard(s)
        pos = [(r, c) for r, c in rows if r.get(s, 0) > 0]
        neg = [(r, c) for r, c in rows if r.get(s, 0) < 0]
        rest = [(r, c) for r, c in rows if r.get(s, 0) == 0]
        for rp, cp in pos:
            for rn, cn in neg:
                a, b = rp[s], -rn[s]
                nr = {}
                for k, v in rp.items():
                    if k is not s:
                        nr[k] = nr.get(k, 0) + v * b
                for k, v in rn.items():
                    if k is not s:
                        nr[k] = nr.get(k, 0) + v * a
                nr = {k: v for k, v in nr.items() if v != 0}
                rest.append((nr, cp * b + cn * a))
        rows = _dedupe(rest)
        if len(rows) > MAX_FM:
            return None, None
    lb = ub = None
    for r, c in rows:
        if not r:
            if c < 0:
                return "dead", "dead"
            continue
        a = r[T]
        bound = -c / a
        if a > 0:
            lb = bound if lb is None else max(lb, bound)
        else:
            ub = bound if ub is None else min(ub, bound)
    if lb is not None and ub is not None and lb > ub:
        return "dead", "dead"
    return lb, ub


def _dedupe(rows):
    best = {}
    for r, c in rows:
        if not r:
            if c < 0:
                return [({}, Fr(-1))]
            continue
        items = sorted(r.items(), key=lambda kv: kv[0].id)
        lead = abs(items[0][1])
        k = tuple((s.id, v / lead) for s, v in items)
        cc = c / lead
        if k not in best or cc < best[k][1]:
            best[k] = ({s: v / lead for s, v in items}, cc)
    return list(best.values())


def bounds(a):
    """Best known (lb, ub) of a form on the current path (integers where finite)."""
    a = norm(a)
    if a.is_const():
        return a.c, a.c
    lo, hi = a.box()
    if P.cons or True:
        flo, fhi = _fm_bounds(a)
        if flo == "dead":
            raise DeadPath()
        if flo is not None:
            lo = flo if lo is None else max(lo, flo)
        if fhi is not None:
            hi = fhi if hi is None else min(hi, fhi)
    # every form denotes an integer
    if lo is not None:
        lo = Fr(math.ceil(lo))
    if hi is not None:
        hi = Fr(math.floor(hi))
    return lo, hi


def prove_ge0(a):
    """True / False (proved negative) / None, without forking."""
    a = norm(a)
    if a.is_const():
        return a.c >= 0
    lo, hi = a.box()
    if lo is not None and lo >= 0:
        return True
    if hi is not None and hi < 0:
        return False
    lo, hi = bounds(a)
    if lo is not None and lo >= 0:
        return True
    if hi is not None and hi < 0:
        return False
    return None


def prove_eq0(a):
    a = norm(a)
    if a.is_const():
        return a.c == 0
    lo, hi = bounds(a)
    if lo is not None and hi is not None and lo == 0 and hi == 0:
        return True
    if (lo is not None and lo > 0) or (hi is not None and hi < 0):
        return False
    return None


def assume_ge0(a):
    a = norm(a)
    if a.is_const():
        if a.c < 0:
            raise DeadPath()
        return
    P.cons.append(a)
    if len(a.t) == 1:
        (s, v), = a.t.items()
        b = -a.c / v
        if v > 0:
            nb = math.ceil(b)
            s_lo = nb if s.lo is None else max(s.lo, nb)
            _set_box(s, s_lo, s.hi)
        else:
            nb = math.floor(b)
            s_hi = nb if s.hi is None else min(s.hi, nb)
            _set_box(s, s.lo, s_hi)


def _set_box(s, lo, hi):
    # symbols are shared between replays only through fresh creation, so narrowing in place is path-local
    if lo is not None and hi is not None and lo > hi:
        raise DeadPath()
    s.lo, s.hi = lo, hi


def assume_eq0(a):
    """Record a == 0, as a substitution when possible (keeps normal forms canonical)."""
    a = norm(a)
    if a.is_const():
        if a.c != 0:
            raise DeadPath()
        return
    pick = None
    for s, v in sorted(a.t.items(), key=lambda kv: -kv[0].id):
        if abs(v) == 1:
            pick = s
            break
    if pick is None:
        pick = max(a.t, key=lambda s: s.id)
    v = a.t[pick]
    rest = Aff(a.c, {k: w for k, w in a.t.items() if k is not pick})
    expr = rest.scale(Fr(-1) / v)  # pick = -(rest)/v
    _substitute(pick, expr)


def _substitute(s, expr):
    P.subst[s] = expr
    if s.lo is not None:
        assume_ge0(expr - s.lo)
    if s.hi is not None:
        assume_ge0(Aff(s.hi) - expr)


def decide_ge0(a, label):
    r = prove_ge0(a)
    if r is None:
        r = P.choose(label)
        if r:
            assume_ge0(a)
        else:
            assume_ge0(-Aff.of(a) - 1)
        _check_alive()
    return r


def decide_eq0(a, label):
    r = prove_eq0(a)
    if r is None:
        r = P.choose(label)
        if r:
            assume_eq0(a)
        else:
            # != 0 over the integers: > 0 or < 0
            if P.choose(label + " [>0]"):
                assume_ge0(Aff.of(a) - 1)
            else:
                assume_ge0(-Aff.of(a) - 1)
        _check_alive()
    return r


def _check_alive():
    lo, hi = _fm_bounds(Aff(0))
    if lo == "dead":
        raise DeadPath()


# ---------------------------------------------------------------- arithmetic with identities
def fresh(name, lo=None, hi=None):
    return Aff.sym(Sym(name, lo, hi))


def divmod_const(x, M):
    """Floor division and remainder by a positive constant, as the identity x = M*q + r."""
    M = int(M)
    if M <= 0:
        raise AnalysisError("engine B: division by non-positive constant %r" % M)
    raw = ("divmod", Aff.of(x).key(), M)
    if raw in P.memo:
        return P.memo[raw]
    x = norm(x)
    if x.is_const():
        if x.c.denominator != 1:
            raise AnalysisError("engine B: non-integer constant")
        return Aff(int(x.c) // M), Aff(int(x.c) % M)
    k = _Keys(raw, ("divmod", x.key(), M))
    if k in P.memo:
        return P.memo[k]
    # syntactic decomposition x = M*A + B with B in [0, M-1]
    A = Aff(0, {s: v / M for s, v in x.t.items() if v.denominator == 1 and v % M == 0})
    B = Aff(x.c, {s: v for s, v in x.t.items() if not (v.denominator == 1 and v % M == 0)})
    blo, bhi = bounds(B)
    if blo is not None and bhi is not None and blo // M == bhi // M:
        kk = int(blo // M)
        res = (A + kk, B - kk * M)
        P.memo[k] = res
        return res
    lo, hi = bounds(x)
    q = Sym("q(%r//%d)" % (x, M), None if lo is None else int(lo // M), None if hi is None else int(hi // M))
    r = Sym("r(%r%%%d)" % (x, M), 0, M - 1)
    qa, ra = Aff.sym(q), Aff.sym(r)
    # solve x = M*q + r for one of x's symbols (prefer unit coefficient, youngest symbol)
    pick = None
    for s, v in sorted(x.t.items(), key=lambda kv: -kv[0].id):
        if abs(v) == 1:
            pick = s
            break
    if pick is None:
        pick = max(x.t, key=lambda s: s.id)
    v = x.t[pick]
    rest = Aff(x.c, {s: w for s, w in x.t.items() if s is not pick})
    _substitute(pick, (qa.scale(M) + ra - rest).scale(Fr(1) / v))
    P.memo[k] = (qa, ra)
    return qa, ra


def mod_sym(x, m):
    """x % m for a modulus proved positive: fresh r with 0 <= r <= m-1 (Python floor semantics)."""
    raw = ("mod", Aff.of(x).key(), Aff.of(m).key())
    if raw in P.memo:
        return P.memo[raw]
    x, m = norm(x), norm(m)
    if m.is_const():
        return divmod_const(x, int(m.c))[1]
    lo, _ = bounds(m)
    if lo is None or lo < 1:
        raise AnalysisError("engine B: modulus not provably positive: %r" % m)
    k = _Keys(raw, ("mod", x.key(), m.key()))
    if k in P.memo:
        return P.memo[k]
    _, mh = bounds(m)
    r = fresh("r(%r%%%r)" % (x, m), 0, None if mh is None else int(mh) - 1)
    assume_ge0(m - 1 - r)
    P.memo[k] = r
    return r


def mul(a, b):
    raw = ("mul",) + tuple(sorted([Aff.of(a).key(), Aff.of(b).key()]))
    if raw in P.memo:
        return P.memo[raw]
    ra, rb = Aff.of(a), Aff.of(b)
    a, b = norm(a), norm(b)
    if a.is_const():
        return rb.scale(a.c)  # keep the other operand as written: later memo keys depend on it
    if b.is_const():
        return ra.scale(b.c)
    k = _Keys(raw, ("mul",) + tuple(sorted([a.key(), b.key()])))
    if k in P.memo:
        return P.memo[k]
    (al, ah), (bl, bh) = bounds(a), bounds(b)
    lo = hi = None
    if None not in (al, ah, bl, bh):
        c = [x * y for x in (al, ah) for y in (bl, bh)]
        lo, hi = int(min(c)), int(max(c))
    r = fresh("(%r*%r)" % (a, b), lo, hi)
    P.memo[k] = r
    return r


def uninterp(name, args, lo=None, hi=None):
    """Uninterpreted integer function of forms, memoised per path by normal form."""
    raw = ("fn", name) + tuple(Aff.of(a).key() if isinstance(a, (Aff, int)) else a for a in args)
    if raw in P.memo:
        return P.memo[raw]
    k = _Keys(raw, ("fn", name) + tuple(norm(Aff.of(a)).key() if isinstance(a, (Aff, int)) else a for a in args))
    if k in P.memo:
        return P.memo[k]
    r = fresh("%s(%s)" % (name, ", ".join(repr(a) for a in args)), lo, hi)
    P.memo[k] = r
    return r


def is_pow2(n):
    return n > 0 and n & (n - 1) == 0


def bit_and(x, mask):
    """x & (2^k - 1) for x >= 0."""
    if isinstance(x, int) and isinstance(mask, int):
        return x & mask
    if isinstance(mask, int) and is_pow2(mask + 1):
        if prove_ge0(x) is not True:
            raise AnalysisError("engine B: & on a possibly negative value")
        return divmod_const(x, mask + 1)[1]
    raise AnalysisError("engine B: unsupported & operand %r" % (mask,))


def bit_xor(x, bit):
    """x ^ 2^k for 0 <= x < 2^(k+1): flips one bit."""
    if isinstance(x, int) and isinstance(bit, int):
        return x ^ bit
    if isinstance(bit, int) and is_pow2(bit):
        lo, hi = bounds(x)
        if lo is None or hi is None or lo < 0 or hi >= 2 * bit:
            raise AnalysisError("engine B: ^ outside the single-bit range")
        h, _ = divmod_const(x, bit)
        return Aff.of(x) + bit - h.scale(2 * bit)
    raise AnalysisError("engine B: unsupported ^ operand %r" % (bit,))


# ---------------------------------------------------------------- exploration
def explore(task, max_paths=20000):
    """Run task() under every choice vector.  Yields (path, status, value) with
    status in {'ok','raise'}; dead paths are dropped.  `task` may raise PyRaise."""
    global P
    from .numeval import PyRaise  # late import (cycle)

    stack = [[]]
    out = []
    n = 0
    while stack:
        vec = stack.pop()
        P = Path(vec)
        n += 1
        if n > max_paths:
            raise AnalysisError("engine B: path explosion (> %d paths)" % max_paths)
        try:
            res = ("ok", task())
        except PyRaise as r:
            res = ("raise", r)
        except DeadPath:
            res = None
        P.closed = True
        if res is not None:
            out.append((P, res[0], res[1]))
        for i in range(len(vec), len(P.log)):
            stack.append([v for _, v in P.log[:i]] + [True])
    return out


def set_path(p):
    global P
    P = p
