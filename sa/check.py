"""CLI of the static checks:  python -m sa.check <Cxx> [--tier quick|thorough] [--repo /repo]"""
import argparse
import importlib
import os
import sys

from .core import run_check
from .index import Index


def main(argv=None):
    ap = argparse.ArgumentParser()
    ap.add_argument("prop")
    ap.add_argument("--tier", default=os.environ.get("VERIF_TIER", "quick"), choices=["quick", "thorough"])
    ap.add_argument("--repo", default=os.environ.get("VERIF_REPO", "/repo"))
    args = ap.parse_args(argv)
    prop = args.prop.upper()
    if args.tier == "thorough" and "VERIF_BUDGET_S" not in os.environ:
        from . import affine
        affine.BUDGET_S = 3600
    try:
        mod = importlib.import_module("sa.props." + prop.lower())
    except ModuleNotFoundError:
        print("ANALYSIS-ERROR property=%s: no check is registered for this property" % prop)
        return 2

    def fn(rep):
        index = Index(args.repo)
        mod.run(rep, index)
        rep.analysed["files_consulted"] = len(index.consulted)

    return run_check(prop, args.tier, args.repo, fn)


if __name__ == "__main__":
    sys.exit(main())
