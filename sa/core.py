"""Shared plumbing for the static checks: obligations, reports, evidence files,
known findings, exit codes.

Exit codes of a check:  0 = every obligation discharged (known findings printed),
1 = at least one undischarged obligation that is not a listed known finding
(a `VIOLATION property=<id> replay=<path>` line is printed for each),
2 = ANALYSIS-ERROR (the analysis itself could not be carried out; fail closed).
"""
import json
import os
import sys
import time
import traceback

VERIF = os.path.dirname(os.path.dirname(os.path.abspath(__file__)))
EVIDENCE_DIR = os.path.join(VERIF, "evidence")
REPLAY_DIR = os.path.join(EVIDENCE_DIR, "replay")
KNOWN_FINDINGS = os.path.join(VERIF, "known_findings.json")


class AnalysisError(Exception):
    """The analysis cannot be carried out (vanished anchor, unsupported construct,
    instance count under its floor).  Never a verdict."""


class Ob:
    """One proof obligation / rule instance."""

    __slots__ = ("rule", "instance", "ok", "detail", "loc", "key", "witness")

    def __init__(self, rule, instance, ok, detail="", loc="", key=None, witness=None):
        self.rule = rule  # e.g. "C07.R1 encode-byte-range"
        self.instance = instance  # construct the rule was applied to
        self.ok = ok  # True discharged / False violated
        self.detail = detail
        self.loc = loc  # file:line
        self.witness = witness
        # stable key for the known-findings file: rule id | construct | abstract witness
        # (the per-path suffix " path[...]" is not part of the construct)
        self.key = key or "%s | %s" % (rule.split(" ")[0], instance.split(" path[")[0])

    def as_json(self):
        d = {"rule": self.rule, "instance": self.instance, "discharged": bool(self.ok)}
        if self.detail:
            d["detail"] = self.detail
        if self.loc:
            d["loc"] = self.loc
        if self.witness is not None:
            d["witness"] = self.witness
        return d


class Report:
    def __init__(self, prop, tier, repo):
        self.prop = prop
        self.tier = tier
        self.repo = repo
        self.obs = []
        self.analysed = {}  # free-form counters: functions, paths, shapes...
        self.notes = []
        self.undecided = []  # clauses deliberately not decided (DESIGN section 6)
        self.assumptions = []
        self.trusted = ["CPython ast module", "the analysis engine under /verif/sa"]
        self.level = "other"
        self.explanation = ""
        self.t0 = time.time()
        self.verbose = os.environ.get("VERIF_VERBOSE") == "1"

    # -- recording ---------------------------------------------------------
    def ob(self, rule, instance, ok, detail="", loc="", key=None, witness=None):
        o = Ob(rule, instance, bool(ok), detail, loc, key, witness)
        self.obs.append(o)
        if not o.ok:
            self._printed = getattr(self, "_printed", {})
            self._printed[o.key] = self._printed.get(o.key, 0) + 1
            if not hasattr(self, "_known_keys"):
                self._known_keys = {e["key"] for e in load_known_findings() if e.get("property") == self.prop and e.get("status") == "open"}
        if self.verbose or (not o.ok and self._printed[o.key] <= 2 and o.key not in self._known_keys):
            print("  [%s] %s :: %s %s%s" % ("ok" if o.ok else "FAIL", rule, instance,
                                            ("@ " + loc + " ") if loc else "", ("-- " + detail) if detail else ""))
        return o.ok

    def count(self, what, n=1):
        self.analysed[what] = self.analysed.get(what, 0) + n

    def floor(self, what, minimum):
        """Vacuity guard: a rule that matched fewer instances than were confirmed by
        hand is an analysis failure, not a pass."""
        got = self.analysed.get(what, 0)
        if got < minimum:
            raise AnalysisError("vacuity guard: %s matched %d instance(s), floor is %d" % (what, got, minimum))

    def note(self, s):
        self.notes.append(s)

    # -- finishing ---------------------------------------------------------
    def finish(self):
        from . import affine
        known = load_known_findings()
        open_keys = {e["key"]: e for e in known if e.get("property") == self.prop and e.get("status") == "open"}
        viol = [o for o in self.obs if not o.ok]
        new = [o for o in viol if o.key not in open_keys]
        listed = [o for o in viol if o.key in open_keys]
        printed = set()
        for o in listed:
            if o.key in printed:
                continue
            printed.add(o.key)
            print("KNOWN-FINDING: property=%s %s -- %s" % (self.prop, o.key, open_keys[o.key].get("what", o.detail)))
        os.makedirs(EVIDENCE_DIR, exist_ok=True)
        if os.path.isdir(REPLAY_DIR):
            for f in os.listdir(REPLAY_DIR):  # replay files of an earlier run of this property are stale
                if f.startswith(self.prop + "-"):
                    os.remove(os.path.join(REPLAY_DIR, f))
        replay_paths = []
        if new:
            os.makedirs(REPLAY_DIR, exist_ok=True)
            seen = set()
            for i, o in enumerate(new):
                if o.key in seen:
                    continue
                seen.add(o.key)
                p = os.path.join(REPLAY_DIR, "%s-%d.json" % (self.prop, len(replay_paths)))
                with open(p, "w") as f:
                    json.dump({"property": self.prop, "key": o.key, **o.as_json(),
                               "all_instances": [x.as_json() for x in new if x.key == o.key][:50]}, f, indent=1)
                replay_paths.append(p)
                print("VIOLATION property=%s replay=%s" % (self.prop, p))
                print("   rule=%s instance=%s %s %s" % (o.rule, o.instance, o.loc, o.detail))
        from .genabs import absint as _gabs
        if _gabs.TRUNCATED and not new:
            raise AnalysisError("analysis incomplete: %s; no violation on the explored paths, but the property cannot be concluded" % _gabs.TRUNCATED[0])
        if affine.truncated_paths and not new:
            raise AnalysisError("analysis incomplete: %d path(s) were cut at a data-dependent loop (%s); "
                                "no violation on the explored paths, but the property cannot be concluded"
                                % (len(affine.truncated_paths), affine.truncated_paths[0]))
        self.write_evidence(len(new), len(printed))
        n_ok = sum(1 for o in self.obs if o.ok)
        print("%s tier=%s: %d obligations, %d discharged, %d known-finding(s), %d new violation(s); analysed %s; %.2fs"
              % (self.prop, self.tier, len(self.obs), n_ok, len(printed), len(replay_paths),
                 json.dumps(self.analysed, sort_keys=True), time.time() - self.t0))
        return 1 if new else 0

    def write_evidence(self, n_new, n_known):
        distinct = {}
        for o in self.obs:
            distinct.setdefault((o.rule, o.instance), o)
        samples = []
        by_rule = {}
        for o in self.obs:
            by_rule.setdefault(o.rule, []).append(o)
        for rule, lst in by_rule.items():
            samples.append(lst[0].as_json())
            if len(lst) > 1:
                samples.append(lst[len(lst) // 2].as_json())
        samples = samples[:60]
        n_ok = sum(1 for o in self.obs if o.ok)
        level = self.level
        if level == "proof" and n_ok != len(self.obs):
            level = "other"  # a proof claim needs every obligation discharged
        cov = {
            "obligations": len(self.obs),
            "discharged": n_ok,
            "evaluations": len(self.obs),
            "distinct_nontrivial": len(distinct),
            "rule": "one evaluation = one rule instance (rule id x construct / path / shape) derived from /repo's "
                    "current syntax trees; distinct = distinct (rule, instance) pairs; every one is non-trivial in the "
                    "sense that the rule's matcher found the construct (vacuity floors enforce minimum counts)",
            "samples": samples,
            "checker_cmd": "cd /verif && ./check %s --tier %s" % (self.prop, self.tier),
            "trusted_base": self.trusted,
            "explanation": self.explanation or "see DESIGN.md section 4, " + self.prop,
            "analysed": self.analysed,
            "rules": {r: {"instances": len(l), "discharged": sum(1 for o in l if o.ok)} for r, l in by_rule.items()},
            "undecided_clauses": self.undecided,
            "known_findings_reported": n_known,
            "notes": self.notes[:40],
            "exhaustive": True,
        }
        ev = {
            "property_id": self.prop,
            "tier": self.tier,
            "seed": int(os.environ.get("VERIF_SEED", "0") or 0),
            "level": level,
            "coverage": cov,
            "assumptions": self.assumptions,
            "wall_s": round(time.time() - self.t0, 3),
            "violations": n_new,
        }
        with open(os.path.join(EVIDENCE_DIR, self.prop + ".json"), "w") as f:
            json.dump(ev, f, indent=1, sort_keys=False)
            f.write("\n")


def load_known_findings():
    if not os.path.exists(KNOWN_FINDINGS):
        return []
    with open(KNOWN_FINDINGS) as f:
        return json.load(f).get("findings", [])


def run_check(prop, tier, repo, fn):
    """Run check function `fn(report)`; map outcomes to the exit-code contract."""
    rep = Report(prop, tier, repo)
    try:
        fn(rep)
        return rep.finish()
    except AnalysisError as e:
        print("ANALYSIS-ERROR property=%s: %s" % (prop, e))
        return 2
    except Exception:  # internal failure: fail closed, never a fabricated verdict
        traceback.print_exc()
        print("ANALYSIS-ERROR property=%s: internal exception" % prop)
        return 2
