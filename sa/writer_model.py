"""Abstract EoWriter: the real class interpreted by engine B over a segmented buffer.

Used by C09 (validation / atomicity / sanitisation), C06 (no 0xFF leaves the writer except
breaks and padding) and C04 (what each add_* appends).
"""
from . import affine as B
from .absbuf import AbsBuf, sym_range_builtin
from .affine import Aff
from .core import AnalysisError
from .numeval import Frame, NumEval, Obj, PyRaise
from .segbuf import AbsStr, SegBuf, checked_bytes, list_times

WRITER = "eolib.data.eo_writer.EoWriter"
CODEC_MOD = "eolib.data.string_encoding_utils"

NUMERIC = {  # method -> (width, exclusive limit)
    "add_byte": (1, 256),
    "add_char": (1, 253),
    "add_short": (2, 253 ** 2),
    "add_three": (3, 253 ** 3),
    "add_int": (4, 253 ** 4),
}
STRINGS = {  # method -> (encoded?, fixed?)
    "add_string": (False, False),
    "add_encoded_string": (True, False),
    "add_fixed_string": (False, True),
    "add_fixed_encoded_string": (True, True),
}


def _normalised(ev, args, kw, node):
    """unicodedata.normalize(form, s): another string -- composition/decomposition changes the number of characters, so
    nothing ties its length to the argument's."""
    if len(args) == 2 and isinstance(args[1], AbsStr):
        return AbsStr("normalised string")
    raise AnalysisError("engine B: unicodedata.normalize(%r)" % (args,))


class WriterWorld:
    def __init__(self, index):
        self.index = index
        self.ev = NumEval(index, natives={"bytearray": checked_bytes, "bytes": checked_bytes, "range": sym_range_builtin},
                          module_hooks={"unicodedata.normalize": _normalised})
        self.ev.list_times = list_times
        self.ev.encoded = []  # AbsBufs produced by encoding a str
        self.ev.abs_bufs = []
        self.ev.on_call = self._on_call
        self.codec_calls = []  # (function name, argument, its length at the time)
        self.m, self.cls = index.klass(WRITER)

    def _on_call(self, f, args, kwargs):
        if f.mod.name == CODEC_MOD and f.node.name in ("encode_string", "decode_string"):
            a = args[0] if args else None
            ln = a.length() if hasattr(a, "length") else None
            self.codec_calls.append((f.node.name, a, ln))
            if isinstance(a, AbsBuf):
                a.events.append((f.node.name,))
            elif isinstance(a, SegBuf):
                for s in a.segs:
                    if s[0] == "abs":
                        s[1].events.append((f.node.name,))
            return None  # length-preserving, never creates 0xFF (C08); contents followed no further
        return NotImplemented

    def new_writer(self, mode=None):
        """A writer holding arbitrary earlier contents, in the given (or forked) sanitisation mode."""
        ev = self.ev
        w = ev.instantiate(WRITER, [])
        bufs = [k for k, v in w.d.items() if isinstance(v, SegBuf)]
        if len(bufs) != 1:
            raise AnalysisError("EoWriter.__init__ does not create exactly one byte buffer: %r" % (w.d,))
        self.buf_field = bufs[0]
        W = B.fresh("len(prior contents)", 0, None)
        data = SegBuf([("prior", W)], "writer data")
        w.d[self.buf_field] = data
        setter = ev.find_method(ev.lookup_global(self.m, "EoWriter"), "string_sanitization_mode", "setter")
        if setter is None:
            raise AnalysisError("anchor vanished: EoWriter.string_sanitization_mode setter")
        # the mode may have been toggled before: an arbitrary earlier mode, then the mode in force
        ev.call(setter, [w, B.cur().choose("earlier string_sanitization_mode on")], {})
        if mode is None:
            mode = B.cur().choose("string_sanitization_mode on")
        ev.call(setter, [w, mode], {})
        self.mode = mode
        self.prior = W
        self.orig = data
        return w, data

    def call(self, w, method, args):
        fr = Frame(self.ev, self.m, {})
        f = fr.getattr(w, method)
        try:
            return ("ok", self.ev.call(f, list(args), {}))
        except PyRaise as r:
            return ("raise", r.exc_name)

    def data_of(self, w):
        return w.d[self.buf_field]

    def replaced(self, w):
        """The writer no longer holds the buffer it started with (it adopted another object as its buffer)."""
        return w.d.get(self.buf_field) is not self.orig
