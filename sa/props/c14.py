"""C14 -- protocol enums accept every integer and keep its value (engine A; generated enums via engine C).

Rules on ProtocolEnumMeta.__call__ (a structural/effect analysis of one method):
  R1  the member lookup is delegated to EnumType.__call__ inside a try whose handler catches ValueError
  R2  the lookup call binds against the running interpreter's EnumType.__call__ signature and does not
      occupy `names` when that would select the functional API
  R3  the lookup result is returned unmodified (declared ordinal -> the declared member, same object)
  R4  the fallback object is int.__new__(cls, value), named Unrecognized(<int(value)>), _value_ = value
  R5  no member table of the enum is written; no result is cached across enum types
  R6  a looked-up member is never tested by truthiness (ordinal 0 is falsy)
  R7  the metaclass defines no __eq__/__hash__ and derives from EnumMeta/EnumType
Not decided: EnumType.__call__ raising ValueError for unknown values / returning the singleton for known
ones, and int equality/hash of the fallback object -- stdlib semantics, trusted.
"""
import ast
import os

from ..core import AnalysisError
from ..index import walk_no_nested

MOD = "eolib.protocol.protocol_enum_meta"
CLS = "ProtocolEnumMeta"
MEMBER_TABLES = {"_value2member_map_", "_member_map_", "_member_names_", "_unhashable_values_", "__members__",
                 "_hashable_values_", "_unhashable_values_map_"}
MUTATORS = {"setdefault", "update", "pop", "popitem", "clear", "append", "extend", "insert", "remove", "add", "discard", "__setitem__"}


def stdlib_enum_call_signature():
    path = os.path.join(os.path.dirname(os.__file__), "enum.py")
    tree = ast.parse(open(path, encoding="utf-8").read(), path)
    for c in tree.body:
        if isinstance(c, ast.ClassDef) and c.name in ("EnumType", "EnumMeta"):
            for f in c.body:
                if isinstance(f, ast.FunctionDef) and f.name == "__call__":
                    a = f.args
                    pos = [x.arg for x in a.posonlyargs + a.args]
                    kwonly = [x.arg for x in a.kwonlyargs]
                    defaults = dict(zip(pos[len(pos) - len(a.defaults):], a.defaults))
                    return path, pos, kwonly, defaults, a.vararg is not None
    raise AnalysisError("EnumType.__call__ not found in %s" % path)


def is_super_call(n):
    return (isinstance(n, ast.Call) and isinstance(n.func, ast.Attribute) and n.func.attr == "__call__"
            and isinstance(n.func.value, ast.Call) and isinstance(n.func.value.func, ast.Name) and n.func.value.func.id == "super")


def rooted_at(e, names):
    """Is expression e an attribute/subscript chain rooted at one of `names`?"""
    while isinstance(e, (ast.Attribute, ast.Subscript)):
        e = e.value
    return isinstance(e, ast.Name) and e.id in names


def run(rep, index):
    rep.level = "other"
    rep.explanation = ("Structural and effect analysis of ProtocolEnumMeta.__call__ (rules R1-R7 in the module docstring), with the "
                       "keyword binding checked against the EnumType.__call__ signature parsed from the running interpreter's "
                       "enum.py. The behaviour of EnumType.__call__ itself and int equality/hash are stdlib semantics: trusted, "
                       "not decided.")
    m, cls = index.klass(MOD + "." + CLS)
    fn = next(iter(index.methods(cls, "__call__")), None)
    if fn is None:
        raise AnalysisError("anchor vanished: %s.%s.__call__" % (MOD, CLS))
    loc = index.loc(m, fn)
    bases = [ast.unparse(b) for b in cls.bases]
    imported = {k: v for k, v in m.imports.items()}
    ok_base = any(b in ("EnumMeta", "EnumType", "enum.EnumMeta", "enum.EnumType") and
                  (b.startswith("enum.") or imported.get(b, ("", ""))[0] == "enum") for b in bases)
    rep.ob("C14.R7 derives-from-EnumMeta", CLS, ok_base, "bases: %s" % bases, loc=index.loc(m, cls))
    defined = {f.name for f in index.methods(cls)}
    rep.ob("C14.R7 no-eq-or-hash-override", CLS, not (defined & {"__eq__", "__hash__", "__ne__"}),
           "methods defined: %s" % sorted(defined), loc=index.loc(m, cls))
    params = [a.arg for a in fn.args.posonlyargs + fn.args.args]
    if len(params) < 2:
        raise AnalysisError("__call__ signature changed: %r" % params)
    cls_p, value_p = params[0], params[1]

    # ---------------- the lookup call(s)
    supers = [n for n in walk_no_nested(fn) if is_super_call(n)]
    rep.count("super().__call__ sites", len(supers))
    path, pos, kwonly, defaults, has_var = stdlib_enum_call_signature()
    lookups = []
    for call in supers:
        kw = {k.arg: k.value for k in call.keywords}
        passes_names = "names" in kw or len(call.args) >= 2
        names_val = kw.get("names") if "names" in kw else (call.args[1] if len(call.args) >= 2 else None)
        functional = passes_names and not (isinstance(names_val, ast.Constant) and names_val.value is None)
        # R2 keyword binding
        accepted = set(pos) | set(kwonly)
        unknown = [k for k in kw if k is not None and k not in accepted]
        rep.ob("C14.R2 call-binds-against-EnumType.__call__", "super().__call__ at line %d" % call.lineno, not unknown,
               "keywords %s; %s accepts %s" % (sorted(k for k in kw if k), os.path.basename(path), sorted(accepted)), loc=index.loc(m, call))
        if not functional:
            lookups.append(call)
            d = defaults.get("names")
            sentinel = d is not None and not (isinstance(d, ast.Constant) and d.value is None)
            rep.ob("C14.R2 lookup-does-not-occupy-names", "super().__call__ at line %d" % call.lineno, not (passes_names and sentinel),
                   "passes names: %s; interpreter default for names: %s" % (passes_names, ast.unparse(d) if d is not None else "<required>"),
                   loc=index.loc(m, call))
            first = call.args[0] if call.args else kw.get("value")
            rep.ob("C14.R1 lookup-uses-the-value", "super().__call__ at line %d" % call.lineno,
                   isinstance(first, ast.Name) and first.id == value_p, "first argument: %s" % (ast.unparse(first) if first is not None else None),
                   loc=index.loc(m, call))
    direct = direct_table_lookups(fn, cls_p)
    if not lookups and not direct:
        rep.ob("C14.R1 lookup-delegated-and-guarded", CLS + ".__call__", False,
               "no member lookup found (neither super().__call__(value, ...) nor a member-table lookup)", loc=loc)
        return
    rep.floor("super().__call__ sites", 1 if direct else 2)

    # R1: each lookup is inside a try whose handler catches ValueError; R3: result returned unmodified
    tries = [n for n in walk_no_nested(fn) if isinstance(n, ast.Try)]
    handler_bodies = []
    for call in lookups:
        holder = None
        for t in tries:
            if any(call is x for st in t.body for x in ast.walk(st)):
                holder = t
        if holder is None:
            rep.ob("C14.R1 lookup-delegated-and-guarded", "super().__call__ at line %d" % call.lineno, False,
                   "the lookup is not inside a try: an unknown ordinal raises ValueError to the caller", loc=index.loc(m, call))
            continue
        caught = []
        for h in holder.handlers:
            if h.type is None:
                caught.append("<bare>")
            elif isinstance(h.type, ast.Tuple):
                caught += [ast.unparse(x) for x in h.type.elts]
            else:
                caught.append(ast.unparse(h.type))
        good = any(c in ("ValueError", "Exception", "BaseException", "<bare>") for c in caught)
        rep.ob("C14.R1 lookup-delegated-and-guarded", "super().__call__ at line %d" % call.lineno, good,
               "handlers catch %s; EnumType.__call__ signals an unknown value with ValueError" % caught, loc=index.loc(m, holder))
        for h in holder.handlers:
            handler_bodies.append(h.body)
        # R3: `return <call>` or `x = <call> ... return x` with x not reassigned/mutated
        ret_direct = any(isinstance(st, ast.Return) and st.value is call for st in ast.walk(holder))
        via = None
        for st in holder.body:
            if isinstance(st, ast.Assign) and st.value is call and len(st.targets) == 1 and isinstance(st.targets[0], ast.Name):
                via = st.targets[0].id
        ok3 = ret_direct
        if via is not None:
            stores = [n for n in walk_no_nested(fn) if isinstance(n, ast.Name) and n.id == via and isinstance(n.ctx, ast.Store)]
            attr_stores = [n for n in walk_no_nested(fn) if isinstance(n, ast.Attribute) and isinstance(n.ctx, ast.Store) and rooted_at(n, {via})]
            rets = [n for n in walk_no_nested(fn) if isinstance(n, ast.Return) and isinstance(n.value, ast.Name) and n.value.id == via]
            ok3 = len(stores) == 1 and not attr_stores and bool(rets)
        rep.ob("C14.R3 declared-member-returned-unmodified", "super().__call__ at line %d" % call.lineno, ok3,
               "the lookup result is %s" % ("returned as is" if ok3 else "not returned unmodified"), loc=index.loc(m, call))

    # R6: truthiness of looked-up members
    for var, node in direct:
        for n in walk_no_nested(fn):
            tests = []
            if isinstance(n, (ast.If, ast.While, ast.IfExp)):
                tests.append(n.test)
            if isinstance(n, ast.BoolOp):
                tests += n.values
            for t in tests:
                bare = t.operand if isinstance(t, ast.UnaryOp) and isinstance(t.op, ast.Not) else t
                if isinstance(bare, ast.Name) and bare.id == var:
                    rep.ob("C14.R6 member-not-tested-by-truthiness", "%s at line %d" % (ast.unparse(t), t.lineno), False,
                           "`%s` holds a looked-up member; a member with ordinal 0 is falsy, so it is taken for missing" % var,
                           loc=index.loc(m, t))
        rep.count("direct member-table lookups")
    if direct and not lookups:
        # fallback construction lives outside a handler: analyse the whole function body for R4/R5
        handler_bodies.append(fn.body)

    # ---------------- the fallback object (R4) and effects (R5)
    shared = {}
    for st in cls.body:
        tgt = None
        if isinstance(st, ast.Assign) and len(st.targets) == 1 and isinstance(st.targets[0], ast.Name):
            tgt, val = st.targets[0].id, st.value
        elif isinstance(st, ast.AnnAssign) and isinstance(st.target, ast.Name) and st.value is not None:
            tgt, val = st.target.id, st.value
        if tgt and isinstance(val, (ast.Dict, ast.List, ast.Set, ast.Call)):
            shared[tgt] = st
    found_fallback = False
    for body in handler_bodies:
        news = {}
        for st in ast.walk(ast.Module(body=body, type_ignores=[])):
            if isinstance(st, ast.Assign) and len(st.targets) == 1 and isinstance(st.targets[0], ast.Name) and isinstance(st.value, ast.Call):
                c = st.value
                if isinstance(c.func, ast.Attribute) and c.func.attr == "__new__":
                    news[st.targets[0].id] = (ast.unparse(c.func.value), [ast.unparse(a) for a in c.args], st)
        if not news:
            continue
        found_fallback = True
        for var, (base, args, st) in news.items():
            inst = "fallback object `%s` (line %d)" % (var, st.lineno)
            rep.ob("C14.R4 fallback-is-int.__new__(cls, value)", inst, base == "int" and args == [cls_p, value_p],
                   "%s.__new__(%s)" % (base, ", ".join(args)), loc=index.loc(m, st))
            name_set = val_set = None
            for s2 in ast.walk(ast.Module(body=body, type_ignores=[])):
                if isinstance(s2, ast.Assign) and len(s2.targets) == 1 and isinstance(s2.targets[0], ast.Attribute) \
                        and isinstance(s2.targets[0].value, ast.Name) and s2.targets[0].value.id == var:
                    if s2.targets[0].attr == "_name_":
                        name_set = s2.value
                    elif s2.targets[0].attr == "_value_":
                        val_set = s2.value
            ok_name = False
            if isinstance(name_set, ast.JoinedStr):
                lits = "".join(v.value for v in name_set.values if isinstance(v, ast.Constant))
                fmts = [ast.unparse(v.value) for v in name_set.values if isinstance(v, ast.FormattedValue)]
                ok_name = lits == "Unrecognized()" and fmts in (["int(%s)" % value_p], [value_p])
            rep.ob("C14.R4 fallback-named-Unrecognized(n)", inst, ok_name,
                   "_name_ = %s" % (ast.unparse(name_set) if name_set is not None else "<never set>"), loc=index.loc(m, st))
            rep.ob("C14.R4 fallback-keeps-the-value", inst, isinstance(val_set, ast.Name) and val_set.id == value_p,
                   "_value_ = %s" % (ast.unparse(val_set) if val_set is not None else "<never set>"), loc=index.loc(m, st))
            rets = [n for n in ast.walk(ast.Module(body=body, type_ignores=[])) if isinstance(n, ast.Return)]
            ok_ret = bool(rets) and all(isinstance(r.value, ast.Name) and (r.value.id == var or (direct and r.value.id in [d[0] for d in direct])) or is_super_call(r.value)
                                        for r in rets if r.value is not None and not _under_names_guard(fn, r))
            rep.ob("C14.R4 fallback-is-what-is-returned", inst, ok_ret,
                   "return statements: %s" % [ast.unparse(r) for r in rets], loc=index.loc(m, st))
    rep.ob("C14.R4 fallback-exists", CLS + ".__call__", found_fallback, "an int.__new__ fallback object is built" if found_fallback else "no fallback object is built", loc=loc)

    # R5 effects through cls anywhere in the method
    aliases = {cls_p}
    changed = True
    while changed:
        changed = False
        for n in walk_no_nested(fn):
            if isinstance(n, ast.Assign) and len(n.targets) == 1 and isinstance(n.targets[0], ast.Name) and rooted_at(n.value, aliases) \
                    and not isinstance(n.value, ast.Name) and n.targets[0].id not in aliases:
                aliases.add(n.targets[0].id)
                changed = True
    n_eff = 0
    for n in walk_no_nested(fn):
        target = None
        how = None
        key = None
        if isinstance(n, (ast.Attribute, ast.Subscript)) and isinstance(n.ctx, (ast.Store, ast.Del)) and rooted_at(n, aliases) \
                and not (isinstance(n, ast.Attribute) and isinstance(n.value, ast.Name) and n.value.id not in aliases):
            target, how = n, "store"
            key = n.slice if isinstance(n, ast.Subscript) else None
        elif isinstance(n, ast.Call) and isinstance(n.func, ast.Attribute) and n.func.attr in MUTATORS and rooted_at(n.func.value, aliases):
            target, how = n.func.value, n.func.attr
            key = n.args[0] if n.args else None
        if target is None:
            continue
        # which attribute of cls is being written?
        chain = []
        e = target
        while isinstance(e, (ast.Attribute, ast.Subscript)):
            if isinstance(e, ast.Attribute):
                chain.append(e.attr)
            e = e.value
        root_attr = chain[-1] if chain else None
        if isinstance(e, ast.Name) and e.id != cls_p:
            # an alias: find what it aliases
            for a in walk_no_nested(fn):
                if isinstance(a, ast.Assign) and isinstance(a.targets[0], ast.Name) and a.targets[0].id == e.id and isinstance(a.value, ast.Attribute):
                    root_attr = a.value.attr
        n_eff += 1
        where = index.loc(m, n)
        if root_attr in MEMBER_TABLES:
            rep.ob("C14.R5 member-tables-not-written", "%s via %s at line %d" % (root_attr, how, n.lineno), False,
                   "constructing from an integer writes the enum's member table %s" % root_attr, loc=where)
        elif root_attr in shared:
            keyed_by_cls = key is not None and any(isinstance(x, ast.Name) and x.id == cls_p for x in ast.walk(key))
            rep.ob("C14.R5 no-cache-across-enum-types", "%s via %s at line %d" % (root_attr, how, n.lineno), keyed_by_cls,
                   "%s is defined once on the metaclass (shared by every protocol enum) and is keyed by %s"
                   % (root_attr, ast.unparse(key) if key is not None else "<nothing>"), loc=where)
        elif isinstance(n, ast.Attribute) and isinstance(n.ctx, ast.Store) and isinstance(n.value, ast.Name) and n.value.id == cls_p:
            rep.ob("C14.R5 member-tables-not-written", "cls.%s at line %d" % (n.attr, n.lineno), n.attr not in MEMBER_TABLES,
                   "attribute %s set on the enum class" % n.attr, loc=where)
        else:
            raise AnalysisError("ProtocolEnumMeta.__call__ keeps state on the enum class through an idiom this rule does not "
                                "know (%s at line %d)" % (ast.unparse(n)[:60], n.lineno))
    rep.count("effects through cls", n_eff)
    rep.ob("C14.R5 effects-inventory", CLS + ".__call__", True, "%d write(s) through the class object examined" % n_eff, loc=loc)
    rep.undecided.append("EnumType.__call__ raises ValueError for unknown values and returns the singleton member for declared ones; "
                         "the int-derived fallback compares/hashes as its integer: stdlib semantics, trusted")
    rep.trusted.append("enum.py of the running interpreter (%s)" % path)
    generated_enums(rep, index)


def _under_names_guard(fn, ret):
    for n in walk_no_nested(fn):
        if isinstance(n, ast.If) and "names" in ast.unparse(n.test) and any(ret is x for st in n.body for x in ast.walk(st)):
            return True
    return False


def direct_table_lookups(fn, cls_p):
    """x = cls._value2member_map_.get(value) / cls._value2member_map_[value] style lookups: [(var, node)]."""
    out = []
    for n in walk_no_nested(fn):
        if isinstance(n, ast.Assign) and len(n.targets) == 1 and isinstance(n.targets[0], ast.Name):
            v = n.value
            src = ast.unparse(v)
            if "_value2member_map_" in src or "_member_map_" in src:
                out.append((n.targets[0].id, n))
    return out


def generated_enums(rep, index):
    """Generated enums are `class X(IntEnum, metaclass=ProtocolEnumMeta)` with one `name = ordinal` per value
    (structural check of the emitter; the emitted text itself is analysed by the engine-C checks)."""
    m, fn, cls = index.function("protocol_code_generator.generate.code_generator.ProtocolCodeGenerator._generate_enum")
    heads = []
    for n in ast.walk(fn):
        if isinstance(n, ast.JoinedStr):
            lits = "".join(v.value for v in n.values if isinstance(v, ast.Constant))
            if lits.startswith("class "):
                heads.append((lits, n))
    ok = any("(IntEnum, metaclass=ProtocolEnumMeta):" in h for h, _ in heads)
    rep.count("enum class headers emitted", len(heads))
    rep.ob("C14.G1 generated-enums-use-the-metaclass", "_generate_enum class header", ok and len(heads) == 1,
           "emitted header template(s): %s" % [h for h, _ in heads], loc=index.loc(m, fn))
    imports = [ast.unparse(c) for c in ast.walk(fn) if isinstance(c, ast.Call) and isinstance(c.func, ast.Attribute) and c.func.attr == "add_import"]
    need = {"IntEnum": "enum", "ProtocolEnumMeta": "eolib.protocol.protocol_enum_meta"}
    for name, mod in need.items():
        hit = any(("'%s'" % name in s or '"%s"' % name in s) and (("'%s'" % mod) in s or ('"%s"' % mod) in s) for s in imports)
        rep.ob("C14.G2 generated-enums-import-what-they-use", "import of %s" % name, hit, "add_import calls: %s" % imports, loc=index.loc(m, fn))
    rep.floor("enum class headers emitted", 1)
