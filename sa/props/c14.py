"""C14 -- protocol enums accept every integer and keep its value (engine B effect interpretation; generated enums via engine C).

ProtocolEnumMeta.__call__ is interpreted (helpers inlined through the call graph) over abstract objects:
  cls     the enum class: reads of a member table give a table object, reads of a container defined on the metaclass
          give a shared table, every store through it is an effect
  value   an arbitrary integer; one boolean per path says whether it is a declared ordinal
  super().__call__(value, ...)   the stdlib lookup: the declared member (one token, compared by identity) or ValueError;
          with `names` given, the functional API (not part of the property)
  int.__new__(c, v)              a fresh object that remembers c and v and records attribute stores
Obligations on every path:
  R1  an undeclared ordinal never raises
  R2  every super().__call__ binds against the running interpreter's EnumType.__call__ signature and a lookup does
      not occupy `names` when that would select the functional API
  R3  a declared ordinal returns the declared member, the same object (so a member with ordinal 0, which is falsy,
      must not be taken for missing: R6)
  R4  an undeclared ordinal returns int.__new__(cls, value) named Unrecognized(<value>) with _value_ = value
      (or the object cached for exactly that class and value)
  R5  no member table of the enum is written; a table shared by all protocol enums is keyed by the class
  R7  the metaclass defines no __eq__/__hash__ and derives from EnumMeta/EnumType
Not decided: EnumType.__call__ raising ValueError for unknown values / returning the singleton for known
ones, and int equality/hash of the fallback object -- stdlib semantics, trusted.
"""
import ast
import os

from .. import affine as B
from ..affine import Aff
from ..core import AnalysisError
from ..numeval import FStr, FuncRef, ClassRef, Native, NumEval, PyRaise

MOD = "eolib.protocol.protocol_enum_meta"
CLS = "ProtocolEnumMeta"
MEMBER_TABLES = {"_value2member_map_", "_member_map_", "_member_names_", "_unhashable_values_", "__members__",
                 "_hashable_values_", "_unhashable_values_map_"}
MUTATORS = {"setdefault", "update", "pop", "popitem", "clear", "append", "extend", "insert", "remove", "add", "discard", "__setitem__"}


def stdlib_enum_call_signature():
    path = os.path.join(os.path.dirname(os.__file__), "enum.py")
    tree = ast.parse(open(path, encoding="utf-8").read(), path)
    for c in tree.body:
        if isinstance(c, ast.ClassDef) and c.name in ("EnumType", "EnumMeta"):
            for f in c.body:
                if isinstance(f, ast.FunctionDef) and f.name == "__call__":
                    a = f.args
                    pos = [x.arg for x in a.posonlyargs + a.args]
                    kwonly = [x.arg for x in a.kwonlyargs]
                    defaults = dict(zip(pos[len(pos) - len(a.defaults):], a.defaults))
                    return path, pos, kwonly, defaults, a.vararg is not None
    raise AnalysisError("EnumType.__call__ not found in %s" % path)


# ------------------------------------------------------------------------------------------------ abstract objects
class World:
    def __init__(self, shared_names):
        self.shared_names = shared_names
        self.meta_methods = {}
        self.effects = []  # (kind, detail, lineno)
        self.lookups = []  # (args, kwargs, lineno)
        self.truth_tests = []
        self.declared = None
        self.value = None

    def is_declared(self):
        if self.declared is None:
            self.declared = B.cur().choose("value is a declared ordinal")
        return self.declared

    def is_value(self, k):
        return isinstance(k, Aff) and B.is_zero(k - self.value)


class IntLike(Aff):
    """The caller's argument: any object that is an int -- a plain one, a bool, a member of another IntEnum, an instance
    of an int subclass with its own __str__ / __format__.  Arithmetic and int() give the plain number (a plain Aff);
    only the object itself carries this class, so a name built from it directly is not known to be the decimal number."""
    __slots__ = ()

    @staticmethod
    def sym(s):
        return IntLike(0, {s: 1})


class MemberTok:
    """The declared member for `value` (exists only on paths where value is declared)."""

    def __init__(self, w):
        self.w = w

    def truth(self, fr, node):
        # the member's ordinal may be 0: its truth value is not known
        r = B.cur().choose("declared member is truthy")
        self.w.truth_tests.append((getattr(node, "lineno", 0), r))
        return r

    def __repr__(self):
        return "<declared member>"


class FunctionalTok:
    def __repr__(self):
        return "<result of the functional API>"


class Fallback:
    def __init__(self, w, c, v, lineno):
        self.w, self.c, self.v, self.lineno = w, c, v, lineno
        self.attrs = {}

    def setattr(self, fr, attr, v, node):
        self.attrs[attr] = v

    def getattr(self, fr, attr, node):
        if attr in self.attrs:
            return self.attrs[attr]
        raise AnalysisError("C14: attribute %s of the fallback object is read before it is set" % attr)

    def truth(self, fr, node):
        raise AnalysisError("C14: truth value of the fallback object (depends on the integer)")

    def __repr__(self):
        return "<int.__new__ object>"


class CachedTok:
    def __init__(self, table, key):
        self.table, self.key = table, key

    def truth(self, fr, node):
        raise AnalysisError("C14: truth value of a cached object")

    def __repr__(self):
        return "<object cached in %s>" % self.table


class EnumCls:
    def __init__(self, w):
        self.w = w
        self.attrs = {}

    def getattr(self, fr, attr, node):
        if attr in self.attrs:
            return self.attrs[attr]
        if attr in MEMBER_TABLES:
            return Table(self.w, self, "member", attr)
        if attr in self.w.shared_names:
            return Table(self.w, self, "shared", attr)
        if attr in self.w.meta_methods:
            # a helper defined on the metaclass, reached through the class: bound to the class
            from ..numeval import Bound
            return Bound(self.w.meta_methods[attr], self)
        if attr in ("__name__", "__qualname__"):
            from ..numeval import Opaque
            return Opaque("class name")
        raise AnalysisError("C14: ProtocolEnumMeta.__call__ reads cls.%s (not a member table, not defined on the metaclass)" % attr)

    def setattr(self, fr, attr, v, node):
        self.w.effects.append(("cls-attr-store", attr, getattr(node, "lineno", 0)))
        self.attrs[attr] = v

    def truth(self, fr, node):
        return True

    def __repr__(self):
        return "<cls>"


def _mentions(key, obj):
    if key is obj:
        return True
    if isinstance(key, (tuple, list)):
        return any(_mentions(k, obj) for k in key)
    return False


def _mentions_value(w, key):
    if w.is_value(key):
        return True
    if isinstance(key, (tuple, list)):
        return any(_mentions_value(w, k) for k in key)
    return False


class Table:
    def __init__(self, w, owner, kind, name):
        self.w, self.owner, self.kind, self.name = w, owner, kind, name
        self.hits = {}

    def __repr__(self):
        return "<%s table %s>" % (self.kind, self.name)

    def _hit(self, key, node):
        if self.kind == "member":
            if not self.w.is_value(key):
                raise AnalysisError("C14: member table %s looked up with something other than the value" % self.name)
            return self.w.is_declared()
        k = repr(key)
        if k not in self.hits:
            self.hits[k] = B.cur().choose("%s already holds an entry for this key" % self.name)
        return self.hits[k]

    def _entry(self, key):
        return MemberTok(self.w) if self.kind == "member" else CachedTok(self.name, key)

    def _write(self, how, key, v, node):
        ln = getattr(node, "lineno", 0)
        if self.kind == "member":
            self.w.effects.append(("member-table-write", "%s via %s" % (self.name, how), ln))
        else:
            self.w.effects.append(("shared-store", (self.name, how, key, v), ln))

    def load_index(self, fr, k, node):
        if self._hit(k, node):
            return self._entry(k)
        raise PyRaise("KeyError", node)

    def store_index(self, fr, k, v, node):
        self._write("item assignment", k, v, node)

    def contains(self, fr, k, node):
        return self._hit(k, node)

    def truth(self, fr, node):
        raise AnalysisError("C14: truth value of a table")

    def getattr(self, fr, attr, node):
        if attr == "get":
            def get(ev, a, kw, n):
                if self._hit(a[0], n):
                    return self._entry(a[0])
                return a[1] if len(a) > 1 else kw.get("default")
            return Native(get, self.name + ".get")
        if attr == "setdefault":
            def setdefault(ev, a, kw, n):
                d = a[1] if len(a) > 1 else None
                self._write("setdefault", a[0], d, n)
                if self._hit(a[0], n):
                    return self._entry(a[0])
                return d
            return Native(setdefault, self.name + ".setdefault")
        if attr in MUTATORS:
            def mut(ev, a, kw, n):
                self._write(attr, a[0] if a else None, a[1] if len(a) > 1 else None, n)
                return None
            return Native(mut, self.name + "." + attr)
        raise AnalysisError("C14: %s.%s is not modelled" % (self.name, attr))


# ------------------------------------------------------------------------------------------------ the check
def run(rep, index):
    rep.level = "other"
    rep.explanation = ("ProtocolEnumMeta.__call__ is interpreted over abstract objects (the enum class with its member tables and "
                       "the metaclass's shared containers, an arbitrary integer that is or is not a declared ordinal, the stdlib "
                       "lookup as 'declared member or ValueError', int.__new__ as a fresh recording object), helpers inlined; "
                       "rules R1-R7 of the module docstring are read off every path; the keyword binding is checked against the "
                       "EnumType.__call__ signature parsed from the running interpreter's enum.py. The behaviour of "
                       "EnumType.__call__ itself and int equality/hash are stdlib semantics: trusted, not decided.")
    m, cls = index.klass(MOD + "." + CLS)
    fn = next(iter(index.methods(cls, "__call__")), None)
    if fn is None:
        raise AnalysisError("anchor vanished: %s.%s.__call__" % (MOD, CLS))
    loc = index.loc(m, fn)
    bases = [ast.unparse(b) for b in cls.bases]
    imported = {k: v for k, v in m.imports.items()}
    ok_base = any(b in ("EnumMeta", "EnumType", "enum.EnumMeta", "enum.EnumType") and
                  (b.startswith("enum.") or imported.get(b, ("", ""))[0] == "enum") for b in bases)
    rep.ob("C14.R7 derives-from-EnumMeta", CLS, ok_base, "bases: %s" % bases, loc=index.loc(m, cls))
    defined = {f.name for f in index.methods(cls)}
    rep.ob("C14.R7 no-eq-or-hash-override", CLS, not (defined & {"__eq__", "__hash__", "__ne__"}),
           "methods defined: %s" % sorted(defined), loc=index.loc(m, cls))
    params = [a.arg for a in fn.args.posonlyargs + fn.args.args]
    if len(params) < 2:
        raise AnalysisError("__call__ signature changed: %r" % params)
    shared = set()
    for st in cls.body:
        tgt = None
        if isinstance(st, ast.Assign) and len(st.targets) == 1 and isinstance(st.targets[0], ast.Name):
            tgt, val = st.targets[0].id, st.value
        elif isinstance(st, ast.AnnAssign) and isinstance(st.target, ast.Name) and st.value is not None:
            tgt, val = st.target.id, st.value
        if tgt and isinstance(val, (ast.Dict, ast.List, ast.Set, ast.Call)):
            shared.add(tgt)

    path_, pos, kwonly, defaults, has_var = stdlib_enum_call_signature()
    accepted = set(pos) | set(kwonly)
    names_default = defaults.get("names")
    sentinel = names_default is not None and not (isinstance(names_default, ast.Constant) and names_default.value is None)

    def task(with_names):
        w = World(shared)
        w.meta_methods = {f.name: FuncRef(m, f, ClassRef(m, cls)) for f in index.methods(cls) if f.name != "__call__" and not f.name.startswith("__")}
        c = EnumCls(w)
        w.value = IntLike.sym(B.Sym("value", None, None))

        def lookup(ev, a, kw, n):
            w.lookups.append((list(a), dict(kw), getattr(n, "lineno", 0)))
            passes_names = "names" in kw or len(a) >= 2
            names_val = kw.get("names") if "names" in kw else (a[1] if len(a) >= 2 else None)
            if passes_names and names_val is not None:
                return FunctionalTok()
            first = a[0] if a else kw.get("value")
            if not w.is_value(first):
                w.effects.append(("lookup-of-something-else", repr(first), getattr(n, "lineno", 0)))
            if w.is_declared():
                return MemberTok(w)
            raise PyRaise("ValueError", n)

        def int_new(ev, a, kw, n):
            return Fallback(w, a[0] if a else None, a[1] if len(a) > 1 else None, getattr(n, "lineno", 0))

        ev = NumEval(index, natives={"int.__new__": int_new})
        ev.keep_fstrings = True

        def super_hook(fr, attr, node):
            if attr != "__call__":
                raise AnalysisError("C14: super().%s in ProtocolEnumMeta" % attr)
            return Native(lookup, "EnumType.__call__")
        ev.super_hook = super_hook
        # "any integer" includes instances of int subclasses (bools, other enums' members): the class of the value is
        # int itself on one path and a proper subclass on the other
        int_class = IntClass(w)
        ev.class_of = lambda fr, o, node: int_class if w.is_value(o) else _no_class(o)
        ev.natives["type"] = lambda ev_, a, kw, n: int_class if (len(a) == 1 and w.is_value(a[0])) else _no_class(a[0] if a else None)
        args = [c, w.value] + ([NamesTok()] if with_names else [])
        res = ev.call(FuncRef(m, fn, ClassRef(m, cls)), args, {})
        return w, c, res

    n_paths = 0
    n_lookup_sites = set()
    for with_names in (False, True):
        paths = B.explore(lambda wn=with_names: task(wn))
        for p, st, val in paths:
            n_paths += 1
            B.set_path(p)
            inst = "%s.__call__(%s) path[%s]" % (CLS, "value, names" if with_names else "value", _fmt(p))
            if st != "ok":
                if with_names:
                    continue  # the functional API's failures are the stdlib's business
                declared = dict(p.log).get("value is a declared ordinal")
                rep.ob("C14.R1 lookup-delegated-and-guarded", inst, False,
                       "raises %s for %s ordinal" % (val.exc_name, "a declared" if declared else "an undeclared"), loc=loc)
                continue
            w, c, res = val
            for a, kw, ln in w.lookups:
                n_lookup_sites.add(ln)
                unknown = [k for k in kw if k not in accepted]
                rep.ob("C14.R2 call-binds-against-EnumType.__call__", "super().__call__ at line %d" % ln, not unknown and (len(a) <= len(pos) or has_var),
                       "keywords %s; %s accepts %s" % (sorted(kw), os.path.basename(path_), sorted(accepted)), loc=loc)
                passes_names = "names" in kw or len(a) >= 2
                names_val = kw.get("names") if "names" in kw else (a[1] if len(a) >= 2 else None)
                if not (passes_names and names_val is not None):
                    rep.ob("C14.R2 lookup-does-not-occupy-names", "super().__call__ at line %d" % ln, not (passes_names and sentinel),
                           "passes names: %s; interpreter default for names: %s"
                           % (passes_names, ast.unparse(names_default) if names_default is not None else "<required>"), loc=loc)
            for kind, detail, ln in w.effects:
                if kind == "member-table-write":
                    rep.ob("C14.R5 member-tables-not-written", "%s at line %d" % (detail, ln), False,
                           "constructing from an integer writes the enum's member table", loc=loc)
                elif kind == "cls-attr-store":
                    rep.ob("C14.R5 member-tables-not-written", "cls.%s at line %d" % (detail, ln), detail not in MEMBER_TABLES,
                           "attribute %s set on the enum class" % detail, loc=loc)
                elif kind == "shared-store":
                    name, how, key, v = detail
                    by_cls = _mentions(key, c)
                    rep.ob("C14.R5 no-cache-across-enum-types", "%s via %s at line %d" % (name, how, ln), by_cls,
                           "%s is defined once on the metaclass (shared by every protocol enum) and is keyed by %s"
                           % (name, "a key containing the class" if by_cls else "a key without the class"), loc=loc)
                    good_v = isinstance(v, Fallback) and v.c is c and w.is_value(v.v) and _mentions_value(w, key)
                    rep.ob("C14.R5 cache-holds-the-fallback-for-its-key", "%s via %s at line %d" % (name, how, ln), good_v,
                           "stored object: %r under a key %s the value" % (v, "containing" if _mentions_value(w, key) else "without"), loc=loc)
                elif kind == "lookup-of-something-else":
                    rep.ob("C14.R1 lookup-uses-the-value", "super().__call__ at line %d" % ln, False, "first argument: %s" % detail, loc=loc)
            for ln, r in w.truth_tests:
                rep.ob("C14.R6 member-not-tested-by-truthiness", "test at line %d" % ln, False,
                       "a looked-up member is tested by truthiness; a member with ordinal 0 is falsy, so it is taken for missing", loc=loc)
            if with_names:
                continue
            if w.declared is None:
                rep.ob("C14.R1 lookup-delegated-and-guarded", inst, False, "returns %r without looking the value up" % (res,), loc=loc)
                continue
            if w.declared:
                rep.ob("C14.R3 declared-member-returned-unmodified", inst, isinstance(res, MemberTok),
                       "a declared ordinal returns %r" % (res,), loc=loc)
                continue
            # undeclared: the fallback object
            if isinstance(res, CachedTok):
                ok = _mentions(res.key, c) and _mentions_value(w, res.key)
                rep.ob("C14.R4 fallback-exists", inst, ok, "returns the object cached in %s under a key %s the class and %s the value"
                       % (res.table, "with" if _mentions(res.key, c) else "WITHOUT", "with" if _mentions_value(w, res.key) else "WITHOUT"), loc=loc)
                continue
            if not isinstance(res, Fallback):
                rep.ob("C14.R4 fallback-exists", inst, False, "an undeclared ordinal returns %r" % (res,), loc=loc)
                continue
            rep.ob("C14.R4 fallback-exists", inst, True, "an int.__new__ object built at line %d is returned" % res.lineno, loc=loc)
            rep.ob("C14.R4 fallback-is-int.__new__(cls, value)", inst, res.c is c and w.is_value(res.v), "int.__new__(%r, %r)" % (res.c, res.v), loc=loc)
            nm = res.attrs.get("_name_")
            ok_name = False
            if isinstance(nm, FStr):
                lits = "".join(x for k, x in nm.parts if k == "text")
                vals = [x for k, x in nm.parts if k == "value"]
                ok_name = lits == "Unrecognized()" and len(vals) == 1 and w.is_value(vals[0]) \
                    and [k for k, _ in nm.parts] == ["text", "value", "text"]
                if ok_name and isinstance(vals[0], IntLike):
                    ok_name = False
                    nm = "Unrecognized(<the argument formatted by its own __format__/__str__>): for True, a member of another "\
                         "IntEnum or any int subclass with its own text form that is not the decimal ordinal"
            if not ok_name and not isinstance(nm, (FStr, str)) and nm is not None:
                raise AnalysisError("C14: the fallback's name is built in a way this interpretation does not follow (%s at %s)" % (_show(nm), loc))
            rep.ob("C14.R4 fallback-named-Unrecognized(n)", inst, ok_name, "_name_ = %s" % (_show(nm),), loc=loc)
            rep.ob("C14.R4 fallback-keeps-the-value", inst, w.is_value(res.attrs.get("_value_")), "_value_ = %s" % (_show(res.attrs.get("_value_")),), loc=loc)
    rep.count("interpreted paths", n_paths)
    rep.count("super().__call__ sites", len(n_lookup_sites))
    rep.floor("interpreted paths", 3)
    rep.undecided.append("EnumType.__call__ raises ValueError for unknown values and returns the singleton member for declared ones; "
                         "the int-derived fallback compares/hashes as its integer: stdlib semantics, trusted")
    rep.trusted.append("enum.py of the running interpreter (%s)" % path_)
    generated_enums(rep, index)


class IntClass:
    """type(value) for an arbitrary integer: `int` or a subclass of it (one boolean per path)."""

    def __init__(self, w):
        self.w = w
        self.plain = None

    def abstract_is(self, fr, other, node):
        if getattr(other, "name", None) == "int":
            if self.plain is None:
                self.plain = B.cur().choose("type(value) is int (not a subclass)")
            return self.plain
        if other is self:
            return True
        return False

    def compare(self, fr, op, other, node):
        r = self.abstract_is(fr, other, node)
        if isinstance(op, ast.Eq):
            return r
        if isinstance(op, ast.NotEq):
            return not r
        raise AnalysisError("C14: ordering comparison of a class")

    def __repr__(self):
        return "<type(value)>"


def _no_class(o):
    raise AnalysisError("C14: the class of %r is not modelled" % (o,))


class NamesTok:
    """A `names` argument that is not None (functional API)."""

    def truth(self, fr, node):
        return True

    def __repr__(self):
        return "<names>"


def _show(v):
    if isinstance(v, FStr):
        return "f'" + "".join(x if k == "text" else "{%r}" % (x,) for k, x in v.parts) + "'"
    return repr(v) if v is not None else "<never set>"


def _fmt(p):
    return ",".join("%s=%s" % (k, "T" if v else "F") for k, v in p.log) or "-"


def generated_enums(rep, index):
    """Generated enums are `class X(IntEnum, metaclass=ProtocolEnumMeta)`, importing both names: read off the files the
    abstractly executed generator writes for a tree with enums in every directory."""
    from ..genabs.driver import Session, run_program
    from .c18 import program_tree
    outs = run_program(Session(index), program_tree, runs=1)
    n_enum = n_files = 0
    for o in outs:
        if o.rejected:
            raise AnalysisError("C14: the generator rejects the reference tree (%s at %s)" % (o.exc, o.exc_site))
        for f in o.value[0].files:
            try:
                tree = ast.parse(f["content"])
            except SyntaxError:
                continue  # C18.Q1's business
            n_files += 1
            imports = {}
            for st in tree.body:
                if isinstance(st, ast.ImportFrom):
                    for a in st.names:
                        imports[a.asname or a.name] = (st.level, st.module)
            for cdef in tree.body:
                if not isinstance(cdef, ast.ClassDef):
                    continue
                bases = [ast.unparse(b) for b in cdef.bases]
                if not any(b in ("IntEnum", "enum.IntEnum", "Enum", "IntFlag") for b in bases):
                    continue
                n_enum += 1
                meta = [ast.unparse(k.value) for k in cdef.keywords if k.arg == "metaclass"]
                inst = "generated enum in %s path[%s]" % (f["path"], o.path())
                rep.ob("C14.G1 generated-enums-use-the-metaclass", inst, bases == ["IntEnum"] and meta == ["ProtocolEnumMeta"],
                       "class %s(%s%s)" % (cdef.name, ", ".join(bases), "".join(", metaclass=%s" % x for x in meta)))
                imp_enum = imports.get("IntEnum")
                imp_meta = imports.get("ProtocolEnumMeta")
                rep.ob("C14.G2 generated-enums-import-what-they-use", inst + " IntEnum", imp_enum == (0, "enum"), "IntEnum imported from %r" % (imp_enum,))
                rep.ob("C14.G2 generated-enums-import-what-they-use", inst + " ProtocolEnumMeta",
                       imp_meta is not None and (imp_meta[1] or "").split(".")[-1] == "protocol_enum_meta",
                       "ProtocolEnumMeta imported from %r" % (imp_meta,))
    rep.count("generated files parsed", n_files)
    rep.count("enum classes emitted", n_enum)
    rep.floor("enum classes emitted", 9)
