"""C10 -- packet-encryption primitives are lossless and exactly invertible (engines B + A).

flip_msb: involution, fixes 0 and 128, length, element-local (abstract interpretation, all 256 values).
swap_multiples: negative multiple rejected and zero returned before any mutation (path rule); the scanning loop is
executed abstractly for one generic iteration and obligations R0-R5 (c10_runs.py) give: length, multiset and every
non-multiple kept, involution.
interleave/deinterleave: length preserved, schedule independent of contents; the weave loops are summarised in closed
form over a symbolic length 2m+rho and the two functions are shown to be total, mutually inverse permutations of
positions (c10_weave.py).
"""
import ast

from .. import affine as B
from ..absbuf import AbsBuf, ReachedLoop, content_independent, sym_range_builtin
from ..affine import Aff
from ..core import AnalysisError
from ..index import walk_no_nested
from ..numeval import NumEval, PyRaise
from . import c10_runs

MOD = "eolib.encrypt.encryption_utils"


def run(rep, index):
    rep.level = "proof"
    rep.explanation = ("flip_msb: per-element transfer by abstract interpretation (bit operations as div/mod identities), "
                       "involution and fixed points proved for all 256 values. swap_multiples: early exits precede every "
                       "mutation (path rule); one generic iteration of the scanning loop is interpreted over a symbolic store "
                       "with the run-counter hypothesis, obligations R0-R5 (inductive counter, stores inside the scanned run of "
                       "multiples, per-iteration effect = disjoint transpositions or an exact slice reversal, indices in bounds, "
                       "element-local multiple test) imply by the theorem in DESIGN.md that length, multiset and non-multiples "
                       "are kept and that the function is an involution. interleave/deinterleave: output length = input length, "
                       "the index schedule never reads the contents, mutual inverseness by closed-form summarisation of the "
                       "weave loops.")
    m = index.module(MOD)
    for fn in ("interleave", "deinterleave", "flip_msb", "swap_multiples"):
        if fn not in m.functions:
            raise AnalysisError("anchor vanished: %s.%s" % (MOD, fn))
    flip_msb(rep, index, m)
    swap_multiples(rep, index, m)
    weave(rep, index, m)
    rep.assumptions.append("buffer elements are integers in [0,255]")


# ---------------------------------------------------------------- flip_msb
def flip_msb(rep, index, m):
    def task(times):
        def t():
            ev = NumEval(index, natives={"range": sym_range_builtin})
            buf = AbsBuf("data")
            ev.abs_bufs = [buf]
            # the property's own case split: 0, 128, the rest below 128, the rest above
            if not B.decide_eq0(buf.c, "c == 0"):
                if not B.decide_eq0(buf.c - 128, "c == 128"):
                    B.decide_ge0(buf.c - 129, "c > 128")
            for _ in range(times):
                ev.call_qual(MOD + ".flip_msb", [buf])
            return buf
        return t

    for times in (1, 2):
        paths = B.explore(task(times))
        rep.count("flip_msb paths", len(paths))
        for p, st, buf in paths:
            B.set_path(p)
            inst = "flip_msb^%d path[%s]" % (times, _fmt(p))
            if st != "ok":
                rep.ob("C10.F0 total", inst, False, "raises %s" % buf.exc_name)
                continue
            rs = buf.resized()
            foreign = [e for e in buf.events if e[0] == "load-foreign" or (e[0] == "store" and e[1] == "foreign")]
            rep.ob("C10.F1 length-and-locality", inst, not rs and not foreign,
                   "resizes %r, foreign accesses %r" % (rs, foreign) if (rs or foreign) else "index stores at the iteration's own index only")
            d = B.norm(Aff.of(buf.val) - buf.c)
            clo, chi = B.bounds(buf.c)
            if times == 2:
                rep.ob("C10.F2 involution", inst, d.is_const() and d.c == 0, "c in [%s,%s]: flip(flip(c)) - c = %r" % (clo, chi, d))
            else:
                if clo == chi and clo in (0, 128):
                    rep.ob("C10.F3 fixes-0-and-128", inst, d.is_const() and d.c == 0, "flip(%s) - %s = %r" % (clo, clo, d))
                vlo, vhi = B.bounds(Aff.of(buf.val))
                rep.ob("C10.F4 byte-range", inst, vlo is not None and vlo >= 0 and vhi <= 255, "flip(c) in [%s,%s]" % (vlo, vhi))
    rep.floor("flip_msb paths", 8)


# ---------------------------------------------------------------- swap_multiples
def swap_multiples(rep, index, m):
    fn = m.functions["swap_multiples"]
    params = [a.arg for a in fn.args.args]
    if len(params) != 2:
        raise AnalysisError("swap_multiples signature changed: %r" % params)
    data_p, mult_p = params

    # (a) path rule: multiple < 0 raises ValueError, multiple == 0 returns, both before any mutation
    def task():
        ev = NumEval(index, natives={"range": sym_range_builtin})
        buf = AbsBuf("data")
        ev.abs_bufs = [buf]
        mult = B.fresh("multiple", None, 0)
        try:
            ev.call_qual(MOD + ".swap_multiples", [buf, mult])
        except PyRaise as r:
            return buf, mult, r.exc_name
        except ReachedLoop:
            return buf, mult, "<reached the main loop>"
        return buf, mult, None

    paths = B.explore(task)
    rep.count("swap early-exit paths", len(paths))
    for p, st, val in paths:
        B.set_path(p)
        inst = "swap_multiples multiple<=0 path[%s]" % _fmt(p)
        if st != "ok":
            rep.ob("C10.S0 total", inst, False, "unexpected %s" % val)
            continue
        buf, mult, exc = val
        lo, hi = B.bounds(mult)
        touched = [e for e in buf.events if e[0] in ("store", "resize", "reverse")]
        if hi is not None and hi < 0:
            rep.ob("C10.S1 negative-rejected", inst, exc == "ValueError" and not touched,
                   "multiple in [%s,%s]: raises %s, mutations before: %r" % (lo, hi, exc, touched))
        else:
            rep.ob("C10.S2 zero-is-identity", inst, exc is None and not touched,
                   "multiple in [%s,%s]: raises %s, mutations: %r" % (lo, hi, exc, touched))
    rep.floor("swap early-exit paths", 2)

    # (b) structural rule: every mutation of the buffer is a swap of two of its elements
    muts = _mutations(fn, data_p)
    rep.count("swap_multiples mutation sites", len(muts))
    swaps = _swap_idioms(fn, data_p)
    covered = set()
    for a, b2 in swaps:
        covered.add(a)
        covered.add(b2)
    for node in muts:
        if node in covered:
            rep.ob("C10.S3 mutation-is-a-swap", "swap_multiples store at line %d" % node.lineno, True,
                   "part of a two-index swap (length and multiset preserved)", loc=index.loc(m, node))
        # any other store form is left to the run clause (symbolic store, slice copies), which fails closed
    c10_runs.run_clause(rep, index, m)  # (stores made in helpers are seen there; it has its own vacuity guard)


def _allocated_with_len(fn, call, data_p):
    """bytearray(len(data)) or bytearray(n) with n assigned exactly once, from len(data)."""
    if not (isinstance(call, ast.Call) and isinstance(call.func, ast.Name) and call.func.id == "bytearray" and len(call.args) == 1 and not call.keywords):
        return False
    a = call.args[0]
    want = "len(%s)" % data_p
    if ast.unparse(a) == want:
        return True
    if isinstance(a, ast.Name):
        defs = [st for st in walk_no_nested(fn) if isinstance(st, (ast.Assign, ast.AugAssign, ast.AnnAssign, ast.For))
                and any(isinstance(n, ast.Name) and isinstance(n.ctx, ast.Store) and n.id == a.id
                        for t in (st.targets if isinstance(st, ast.Assign) else [st.target]) for n in ast.walk(t))]
        return len(defs) == 1 and isinstance(defs[0], ast.Assign) and ast.unparse(defs[0].value) == want
    return False


def _mutations(fn, buf):
    """Statements/expressions that may mutate the buffer parameter."""
    out = []
    for n in walk_no_nested(fn):
        if isinstance(n, ast.Subscript) and isinstance(n.ctx, (ast.Store, ast.Del)) and isinstance(n.value, ast.Name) and n.value.id == buf:
            out.append(n)
        elif isinstance(n, ast.Call) and isinstance(n.func, ast.Attribute) and isinstance(n.func.value, ast.Name) and n.func.value.id == buf:
            if n.func.attr in ("append", "extend", "insert", "pop", "remove", "clear", "reverse", "sort", "__setitem__", "__delitem__"):
                out.append(n)
        elif isinstance(n, ast.AugAssign) and isinstance(n.target, ast.Name) and n.target.id == buf:
            out.append(n)
    return out


def _swap_idioms(fn, buf):
    """Pairs of store nodes (data[X], data[Y]) forming `t = data[X]; data[X] = data[Y]; data[Y] = t`
    or `data[X], data[Y] = data[Y], data[X]`."""
    pairs = []

    def is_elem(e):
        return isinstance(e, ast.Subscript) and isinstance(e.value, ast.Name) and e.value.id == buf and not isinstance(e.slice, ast.Slice)

    def key(e):
        return ast.dump(e.slice)

    for node in ast.walk(fn):
        body_lists = [getattr(node, f) for f in ("body", "orelse", "finalbody") if isinstance(getattr(node, f, None), list)]
        for body in body_lists:
            for i, st in enumerate(body):
                # tuple swap
                if (isinstance(st, ast.Assign) and len(st.targets) == 1 and isinstance(st.targets[0], ast.Tuple)
                        and isinstance(st.value, ast.Tuple) and len(st.targets[0].elts) == 2 and len(st.value.elts) == 2):
                    a, b2 = st.targets[0].elts
                    c, d = st.value.elts
                    if all(is_elem(x) for x in (a, b2, c, d)) and key(a) == key(d) and key(b2) == key(c):
                        pairs.append((a, b2))
                # three-statement swap
                if i + 2 < len(body):
                    s1, s2, s3 = body[i:i + 3]
                    if (isinstance(s1, ast.Assign) and len(s1.targets) == 1 and isinstance(s1.targets[0], ast.Name) and is_elem(s1.value)
                            and isinstance(s2, ast.Assign) and len(s2.targets) == 1 and is_elem(s2.targets[0]) and is_elem(s2.value)
                            and isinstance(s3, ast.Assign) and len(s3.targets) == 1 and is_elem(s3.targets[0])
                            and isinstance(s3.value, ast.Name) and s3.value.id == s1.targets[0].id
                            and key(s1.value) == key(s2.targets[0]) and key(s2.value) == key(s3.targets[0])):
                        pairs.append((s2.targets[0], s3.targets[0]))
    return pairs


# ---------------------------------------------------------------- interleave / deinterleave
def weave(rep, index, m):
    for name in ("interleave", "deinterleave"):
        fn = m.functions[name]
        data_p = fn.args.args[0].arg
        muts = _mutations(fn, data_p)
        # the only mutation: data[:] = <buffer allocated as bytearray(len(data)) and only index-assigned>
        ok = False
        detail = "mutations: %s" % [ast.unparse(x)[:40] for x in muts]
        if len(muts) == 1 and isinstance(muts[0], ast.Subscript) and isinstance(muts[0].slice, ast.Slice) \
                and muts[0].slice.lower is None and muts[0].slice.upper is None and muts[0].slice.step is None:
            assign = _parent_assign(fn, muts[0])
            if assign is not None and isinstance(assign.value, ast.Name):
                bname = assign.value.id
                allocs = [st for st in walk_no_nested(fn) if isinstance(st, ast.Assign) and any(isinstance(t, ast.Name) and t.id == bname for t in st.targets)]
                good_alloc = len(allocs) == 1 and _allocated_with_len(fn, allocs[0].value, data_p)
                bmuts = _mutations(fn, bname)
                only_index = all(isinstance(x, ast.Subscript) and not isinstance(x.slice, ast.Slice) for x in bmuts)
                ok = good_alloc and only_index
                detail = "data[:] = %s; %s allocated as %s; %d index stores into it" % (
                    bname, bname, ast.unparse(allocs[0].value) if allocs else "?", len(bmuts))
        rep.count("weave functions")
        if ok:
            rep.ob("C10.W1 length-preserved", name, True, detail, loc=index.loc(m, fn))
        else:
            # another way of writing the result back (slices, concatenations): whether the length is kept is then part of
            # W3 (the positions written are exactly 0..len-1), which fails closed on forms it cannot summarise
            rep.note("%s: result written back through %s; length preservation is decided by W3" % (name, detail))
        # schedule independence: every name used in a subscript index or a loop test is content-independent
        used = set()
        for n in walk_no_nested(fn):
            if isinstance(n, ast.Subscript):
                for x in ast.walk(n.slice):
                    if isinstance(x, ast.Name):
                        used.add(x.id)
            if isinstance(n, (ast.While, ast.If)):
                for x in ast.walk(n.test):
                    if isinstance(x, ast.Name):
                        used.add(x.id)
        used.discard(data_p)
        for var in sorted(used):
            good, why = content_independent(fn, data_p, var)
            rep.count("schedule variables")
            rep.ob("C10.W2 schedule-independent-of-contents", "%s variable %s" % (name, var), good,
                   why or "no definition of %s reads %s[...]" % (var, data_p), loc=index.loc(m, fn))
        # tests must not read contents directly either
        for n in walk_no_nested(fn):
            if isinstance(n, (ast.While, ast.If)):
                direct = any(isinstance(x, ast.Subscript) and isinstance(x.value, ast.Name) and x.value.id == data_p for x in ast.walk(n.test))
                rep.ob("C10.W2 schedule-independent-of-contents", "%s test at line %d" % (name, n.lineno), not direct,
                       "test %s reads buffer contents" % ast.unparse(n.test) if direct else "test reads lengths/counters only",
                       loc=index.loc(m, n))
    rep.floor("weave functions", 2)
    # (no floor on schedule variables: a function that indexes with constants and slices only has none)
    from . import c10_weave
    c10_weave.inverse_permutations(rep, index, m)


def _parent_assign(fn, target):
    for st in walk_no_nested(fn):
        if isinstance(st, ast.Assign) and any(t is target for t in st.targets):
            return st
    return None


def _fmt(p):
    return ",".join("%s=%s" % (k, "T" if v else "F") for k, v in p.log) or "-"
