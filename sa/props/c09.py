"""C09 -- EoWriter validates atomically and sanitises exactly when asked (engines A + B)."""
from .. import affine as B
from ..absbuf import AbsBuf
from ..affine import Aff
from ..core import AnalysisError
from ..segbuf import AbsStr, seg_len
from ..writer_model import NUMERIC, STRINGS, WriterWorld

MOD = "eolib.data.eo_writer"


def run(rep, index):
    rep.level = "proof"
    rep.explanation = ("Every public add_* method of the real EoWriter class is interpreted by engine B on an abstract "
                       "writer (arbitrary earlier contents, both sanitisation modes, symbolic integer / string length / "
                       "length argument / padded flag). On every path: a raise happens exactly when the declared limit or "
                       "length rule is violated, nothing was written before it, an accepted call appends exactly the "
                       "declared number of bytes, padding is 0xFF, and the string's generic byte is rewritten 0xFF->0x79 "
                       "exactly when the mode is on.")
    m, cls = index.klass(MOD + ".EoWriter")
    public = [f.name for f in index.methods(cls) if f.name.startswith("add_")]
    rep.count("public adders", len(public))
    unknown = [p for p in public if p not in NUMERIC and p not in STRINGS and p != "add_bytes"]
    for u in unknown:
        rep.note("adder %s is not in the property's catalogue; analysed only for atomicity" % u)
    numeric(rep, index)
    raw_bytes(rep, index)
    strings(rep, index)
    histories(rep, index)
    rep.floor("public adders", 10)
    rep.assumptions += ["integers passed to add_* are >= 0 (the property's quantifier)",
                        "bytearray(str, 'windows-1252', 'replace') yields exactly one byte per character (codec library)",
                        "encode_string is length-preserving and never creates 0xFF (decided by C08)"]


# ---------------------------------------------------------------- integers
def numeric(rep, index):
    for meth, (width, limit) in NUMERIC.items():
        def task(meth=meth):
            ww = WriterWorld(index)
            w, data = ww.new_writer()
            n = B.fresh("n", 0, None)
            st, val = ww.call(w, meth, [n])
            enc = None
            if st == "ok" and meth != "add_byte":
                enc = ww.ev.call_qual("eolib.data.number_encoding_utils.encode_number", [n])
            return ww, w, n, st, val, enc

        paths = B.explore(task)
        rep.count("numeric paths", len(paths))
        seen_ok = seen_raise = False
        for p, pst, val in paths:
            B.set_path(p)
            inst = "EoWriter.%s path[%s]" % (meth, _fmt(p))
            if pst != "ok":
                # a raise from the post-hoc reference encoding only (n out of encode range): not the writer's
                continue
            ww, w, n, st, res, enc = val
            if _replaced(rep, ww, w, inst):
                continue
            data = ww.data_of(w)
            lo, hi = B.bounds(n)
            if st == "raise":
                seen_raise = True
                rep.ob("C09.N1 raises-ValueError", inst, res == "ValueError", "raises %s" % res)
                rep.ob("C09.N2 raise-only-at-or-above-limit", inst, lo is not None and lo >= limit,
                       "raises for n in [%s,%s]; limit %d" % (lo, hi, limit))
                rep.ob("C09.N3 nothing-written-before-raise", inst, not data.appended() and not data.disturbed(),
                       "events before the raise: %r" % (data.events,))
            else:
                seen_ok = True
                rep.ob("C09.N4 accepts-only-below-limit", inst, hi is not None and hi <= limit - 1,
                       "accepted n in [%s,%s]; limit %d" % (lo, hi, limit))
                app = data.appended()
                total = Aff(0)
                for s in app:
                    total = total + Aff.of(seg_len(s))
                total = B.norm(total)
                rep.ob("C09.N5 appends-declared-width", inst, total.is_const() and total.c == width and not data.disturbed(),
                       "appended %r byte(s) in %d write(s), declared %d; disturbed: %r" % (total, len(app), width, data.disturbed()))
                if enc is not None:
                    # whatever the number of writes, the bytes appended are the first `width` bytes of the encoding
                    flat = []
                    for seg in app:
                        if seg[0] != "bytes":
                            raise AnalysisError("C09: %s appends a %s segment; its bytes cannot be compared with encode_number(n)" % (meth, seg[0]))
                        flat.extend(seg[1])
                    if not isinstance(enc, list):
                        raise AnalysisError("C09: encode_number(n) did not evaluate to a byte list")
                    same = len(flat) == width and all(_is_zero(Aff.of(x) - Aff.of(y)) for x, y in zip(flat, enc[:width]))
                    rep.count("encoding-prefix comparisons")
                    rep.ob("C09.N6 writes-encoding-prefix", inst, same, "appended %r vs encode_number(n)[:%d] = %r" % (flat, width, enc[:width]))
        rep.ob("C09.N0 both-outcomes-reachable", "EoWriter.%s" % meth, seen_ok and seen_raise,
               "accepting path: %s, rejecting path: %s" % (seen_ok, seen_raise))
    rep.floor("numeric paths", 10)
    rep.floor("encoding-prefix comparisons", 4)


def raw_bytes(rep, index):
    def task():
        ww = WriterWorld(index)
        w, data = ww.new_writer()
        blob = AbsBuf("bytes")
        st, val = ww.call(w, "add_bytes", [blob])
        return ww, w, blob, st, val
    for p, pst, val in B.explore(task):
        B.set_path(p)
        inst = "EoWriter.add_bytes path[%s]" % _fmt(p)
        if pst != "ok":
            rep.ob("C09.B1 add_bytes", inst, False, "raises")
            continue
        ww, w, blob, st, res = val
        if _replaced(rep, ww, w, inst):
            rep.count("raw paths")
            continue
        data = ww.data_of(w)
        app = data.appended()
        ok = st == "ok" and len(app) == 1 and app[0][0] == "abs" and app[0][1] is blob and not data.disturbed() \
            and _is_zero(Aff.of(blob.val) - blob.c) and not blob.resized()
        rep.ob("C09.B1 add_bytes-appends-argument-verbatim", inst, ok, "appended %r, disturbed %r" % ([s[0] for s in app], data.disturbed()))
        rep.count("raw paths")
    rep.floor("raw paths", 1)


# ---------------------------------------------------------------- strings
def strings(rep, index):
    for meth, (encoded, fixed) in STRINGS.items():
        def task(meth=meth, fixed=fixed):
            ww = WriterWorld(index)
            w, data = ww.new_writer()
            s = AbsStr()
            args = [s]
            N = padded = None
            if fixed:
                N = B.fresh("length", 0, None)
                padded = B.cur().choose("padded")
                args += [N, padded]
            st, val = ww.call(w, meth, args)
            # case split on the generic byte of the encoded string: 0xFF or not
            for buf in ww.ev.encoded:
                B.decide_eq0(buf.c - 0xFF, "c == 0xFF")
            return ww, w, s, N, padded, st, val

        paths = B.explore(task)
        rep.count("string paths", len(paths))
        for p, pst, val in paths:
            B.set_path(p)
            inst = "EoWriter.%s path[%s]" % (meth, _fmt(p))
            if pst != "ok":
                rep.ob("C09.S0 total", inst, False, "unexpected %r" % (val,))
                continue
            ww, w, s, N, padded, st, res = val
            if _replaced(rep, ww, w, inst):
                continue
            data = ww.data_of(w)
            S = s.S
            if st == "raise":
                rep.ob("C09.S1 raises-ValueError", inst, res == "ValueError" and fixed, "raises %s" % res)
                if fixed:
                    if padded:
                        viol = B.prove_ge0(S - N - 1) is True
                        why = "padded: len(string) > length"
                    else:
                        viol = B.prove_eq0(S - N) is False
                        why = "exact: len(string) != length"
                    rep.ob("C09.S2 raise-only-on-length-violation", inst, viol, "%s is %sproved on this path" % (why, "" if viol else "NOT "))
                rep.ob("C09.S3 nothing-written-before-raise", inst, not data.appended() and not data.disturbed(), "events: %r" % (data.events,))
                continue
            if fixed:
                if padded:
                    fine = B.prove_ge0(N - S) is True
                else:
                    fine = B.prove_eq0(S - N) is True
                rep.ob("C09.S4 accepts-only-valid-lengths", inst, fine,
                       "accepted with padded=%s; len(string)%slength %sproved" % (padded, "<=" if padded else "==", "" if fine else "NOT "))
            app = data.appended()
            total = Aff(0)
            for sg in app:
                total = total + Aff.of(seg_len(sg))
            want = N if fixed else S
            rep.ob("C09.S5 appends-declared-length", inst, _is_zero(total - want) and not data.disturbed(),
                   "appended %r, declared %r; disturbed %r" % (B.norm(total), B.norm(Aff.of(want)), data.disturbed()))
            kinds = [sg[0] for sg in app]
            abs_segs = [sg[1] for sg in app if sg[0] == "abs"]
            consts = [sg for sg in app if sg[0] == "const"]
            rep.ob("C09.S6 only-string-bytes-and-0xFF-padding", inst,
                   all(k in ("abs", "const") for k in kinds) and all(c[1] == 0xFF for c in consts) and len(abs_segs) <= 1
                   and (not consts or (fixed and padded)),
                   "segments %r" % ([(sg[0], sg[1] if sg[0] == "const" else "") for sg in app],))
            for buf in ww.ev.encoded:
                if buf.codec != ("windows-1252", "replace"):
                    rep.ob("C09.S7 codec", inst, False, "string encoded with %r" % (buf.codec,))
                clo, chi = B.bounds(buf.c)
                d = B.norm(Aff.of(buf.val) - buf.c)
                if ww.mode:
                    if clo == chi == 0xFF:
                        v = B.const_of(Aff.of(buf.val))
                        rep.ob("C09.S8 sanitised-when-on", inst, v == 0x79, "0xFF written as %r (expected 0x79 'y')" % (v if v is not None else B.norm(Aff.of(buf.val)),))
                    else:
                        rep.ob("C09.S8 sanitised-when-on", inst, B.is_zero(d), "byte c != 0xFF written as c + %r" % d)
                else:
                    rep.ob("C09.S9 exact-image-when-off", inst, B.is_zero(d), "byte written as c + %r (mode is off)" % d)
                # sanitisation must be applied to the string bytes, before encoding
                ev_names = [e[0] for e in buf.events]
                if "encode_string" in ev_names and "store" in ev_names:
                    rep.ob("C09.S10 sanitise-before-encode", inst, ev_names.index("store") < ev_names.index("encode_string"),
                           "event order on the string bytes: %r" % (ev_names,))
                rep.ob("C09.S11 string-bytes-not-resized", inst, not buf.resized(), "resizes: %r" % (buf.resized(),))
            enc_calls = [c for c in ww.codec_calls if c[0] == "encode_string"]
            rep.ob("C09.S12 encoded-iff-encoded-method", inst, (len(enc_calls) == 1) == encoded and len(enc_calls) <= 1,
                   "%d encode_string call(s)" % len(enc_calls))
            if encoded and fixed and enc_calls:
                # padding is added before encoding: the encoded object already has the declared length
                ln = enc_calls[0][2]
                rep.ob("C09.S13 padding-before-encoding", inst, ln is not None and _is_zero(Aff.of(ln) - N),
                       "encode_string applied to %r bytes, declared length %r" % (ln, B.norm(Aff.of(N))))
    rep.floor("string paths", 16)


# ---------------------------------------------------------------- two-call histories
def histories(rep, index):
    """The same str written twice on one writer (any pair of string methods): the second write must
    again be the exact image of the string -- hidden state kept between calls must not leak."""
    meths = list(STRINGS)
    for first in meths:
        for second in meths:
            def task(first=first, second=second):
                ww = WriterWorld(index)
                w, data = ww.new_writer(mode=False)
                s = AbsStr()

                def args_for(meth):
                    a = [s]
                    if STRINGS[meth][1]:
                        a += [s.S, False]  # exact length: always accepted
                    return a
                st1, _ = ww.call(w, first, args_for(first))
                n1 = len(data.events)
                st2, _ = ww.call(w, second, args_for(second))
                return ww, w, s, st1, st2, n1
            for p, pst, val in B.explore(task):
                B.set_path(p)
                rep.count("history paths")
                inst = "EoWriter.%s then %s (same string) path[%s]" % (first, second, _fmt(p))
                if pst != "ok":
                    rep.ob("C09.H0 total", inst, False, "escaped %r" % (val,))
                    continue
                ww, w, s, st1, st2, n1 = val
                if _replaced(rep, ww, w, inst):
                    continue
                data = ww.data_of(w)
                later = [e for e in data.events[n1:] if e[0] == "append"]
                ok = st1 == "ok" and st2 == "ok" and len(later) == 1 and later[0][1][0] == "abs" and later[0][3] is not None
                detail = "calls: %s/%s, second call appended %r" % (st1, st2, [e[1][0] for e in later])
                if ok:
                    buf = later[0][1][1]
                    val_at, evs = later[0][3]
                    n_enc = sum(1 for x in evs if x == "encode_string")
                    want_enc = 1 if STRINGS[second][0] else 0
                    exact = B.is_zero(Aff.of(val_at) - buf.c)
                    ok = exact and n_enc == want_enc and B.is_zero(buf.L - s.S)
                    detail = ("second write: byte = c + %r, encode_string applied %d time(s) to these bytes (expected %d)"
                              % (B.norm(Aff.of(val_at) - buf.c), n_enc, want_enc))
                rep.ob("C09.H1 second-write-of-a-string-is-its-exact-image", inst, ok, detail)
    rep.floor("history paths", 16)


def _replaced(rep, ww, w, inst):
    if ww.replaced(w):
        rep.ob("C09.A1 writer-keeps-its-own-buffer", inst, False,
               "the writer replaced its buffer by another object (%r): earlier contents are lost and the caller's object is aliased"
               % type(ww.data_of(w)).__name__)
        return True
    return False


def _is_zero(form):
    d = B.norm(form)
    if d.is_const():
        return d.c == 0
    return B.prove_eq0(d) is True


def _fmt(p):
    return ",".join("%s=%s" % (k, "T" if v else "F") for k, v in p.log) or "-"
