"""C10, weave clause: interleave and deinterleave are mutually inverse, length-preserving permutations of positions.

Closed-form summarisation of the two weave functions (engine B's affine domain, no unrolling): the data length
is L = 2m + rho (rho in {0,1}, m >= 0 symbolic); every `while` loop whose counters advance by constants and whose
test is affine gets the trip count T = floor(g0 / -gamma) + 1 (0 if g0 < 0); each store in a loop becomes a
*family* (dst(k), src(k)) for 0 <= k < T.  Then, per parity and per path:
  W3  every access is inside the buffers, and the side that is read (interleave) / written (deinterleave) in order
      covers 0..L-1 exactly once  => each function is a total map applying one permutation of positions
  W4  deinterleave(interleave(x)) = x family by family (an early return counts as the identity family)
Unknown statement forms give exit 2 (the clause is then undecided, never assumed).
"""
import ast

from .. import affine as B
from ..affine import Aff
from ..core import AnalysisError
from ..index import walk_no_nested


class Family:
    def __init__(self, dst_buf, dst0, dstd, src_buf, src0, srcd, T):
        self.dst_buf, self.dst0, self.dstd = dst_buf, dst0, dstd  # dst(k) = dst0 + dstd*k
        self.src_buf, self.src0, self.srcd = src_buf, src0, srcd
        self.T = T

    def dst(self, k):
        return self.dst0 + Aff.of(k).scale(self.dstd)

    def src(self, k):
        return self.src0 + Aff.of(k).scale(self.srcd)


class Unknown(AnalysisError):
    pass


class Seq:
    """A sequence of elements of the data: pieces (src0, srcd, T), element k of a piece is data[src0 + srcd*k], k < T."""

    def __init__(self, pieces):
        self.pieces = list(pieces)

    def reversed(self):
        return Seq([(s0 + (Aff.of(T) - 1).scale(d), -d, T) for s0, d, T in reversed(self.pieces)])

    def total(self):
        t = Aff(0)
        for _, _, T in self.pieces:
            t = t + T
        return t


class Summary:
    """Executes one weave function abstractly; result: families, or identity (early return / no commit)."""

    def __init__(self, fn, L, consts=None):
        self.fn = fn
        self.L = L
        self.consts = consts or {}
        self.data = fn.args.args[0].arg
        self.buffer = None
        self.env = {}
        self.families = []
        self.committed = False
        self.returned = False
        self.seqs = {}  # local name -> Seq

    def run(self):
        body = [st for st in self.fn.body if not (isinstance(st, ast.Expr) and isinstance(st.value, ast.Constant))]
        self.block(body)
        return self

    def expr(self, e):
        if isinstance(e, ast.Constant) and isinstance(e.value, int):
            return Aff(e.value)
        if isinstance(e, ast.Name):
            if e.id in self.env:
                return self.env[e.id]
            if isinstance(self.consts.get(e.id), int) and not isinstance(self.consts.get(e.id), bool):
                return Aff(self.consts[e.id])
            raise Unknown("name %s in a weave function" % e.id)
        if isinstance(e, ast.Call) and isinstance(e.func, ast.Name) and e.func.id == "len" and len(e.args) == 1 and isinstance(e.args[0], ast.Name) \
                and e.args[0].id in (self.data, self.buffer):
            return self.L
        if isinstance(e, ast.BinOp):
            a, b = self.expr(e.left), self.expr(e.right)
            if isinstance(e.op, ast.Add):
                return a + b
            if isinstance(e.op, ast.Sub):
                return a - b
            if isinstance(e.op, ast.Mult):
                return B.mul(a, b)
            if isinstance(e.op, (ast.FloorDiv, ast.Mod)):
                bb = B.norm(b)
                if bb.is_const() and bb.c > 0:
                    q, r = B.divmod_const(a, int(bb.c))
                    return q if isinstance(e.op, ast.FloorDiv) else r
        if isinstance(e, ast.UnaryOp) and isinstance(e.op, ast.USub):
            return -self.expr(e.operand)
        raise Unknown("expression %s in a weave function" % ast.unparse(e))

    # -- sequences built from the data (slices, comprehensions over a range, concatenations, reversals)
    def _clampidx(self, x, lo, hi, label):
        """Python's slice normalisation of one bound: negative counts from the end, then clamp into [lo, hi]."""
        if not B.decide_ge0(x, label + " >= 0"):
            x = x + self.L
        if not B.decide_ge0(x - lo, label + " not below the range"):
            return lo
        if not B.decide_ge0(hi - x, label + " not beyond the range"):
            return hi
        return x

    def _count(self, span, step, label):
        """max(0, ceil(span / step)) for a positive constant step."""
        if not B.decide_ge0(span - 1, label + " non-empty"):
            return Aff(0)
        return B.divmod_const(span + (step - 1), step)[0]

    def slice_piece(self, sl, label):
        step = 1
        if sl.step is not None:
            c = B.const_of(self.expr(sl.step))
            if c is None or c == 0:
                raise Unknown("slice step %s" % ast.unparse(sl.step))
            step = int(c)
        if step > 0:
            start = Aff(0) if sl.lower is None else self._clampidx(self.expr(sl.lower), Aff(0), self.L, label + " start")
            stop = self.L if sl.upper is None else self._clampidx(self.expr(sl.upper), Aff(0), self.L, label + " stop")
            return (start, step, self._count(stop - start, step, label))
        start = self.L - 1 if sl.lower is None else self._clampidx(self.expr(sl.lower), Aff(-1), self.L - 1, label + " start")
        stop = Aff(-1) if sl.upper is None else self._clampidx(self.expr(sl.upper), Aff(-1), self.L - 1, label + " stop")
        return (start, step, self._count(start - stop, -step, label))

    def seq(self, e):
        """-> Seq, or None when e is not a sequence expression over the data."""
        if isinstance(e, ast.Name):
            return self.seqs.get(e.id)
        if isinstance(e, ast.Subscript) and isinstance(e.slice, ast.Slice):
            if isinstance(e.value, ast.Name) and e.value.id == self.data:
                return Seq([self.slice_piece(e.slice, "slice@%d" % e.lineno)])
            inner = self.seq(e.value)
            if inner is not None and e.slice.lower is None and e.slice.upper is None and e.slice.step is not None \
                    and B.const_of(self.expr(e.slice.step)) == -1:
                return inner.reversed()
            return None
        if isinstance(e, ast.BinOp) and isinstance(e.op, ast.Add):
            a, b = self.seq(e.left), self.seq(e.right)
            if a is not None and b is not None:
                return Seq(a.pieces + b.pieces)
            return None
        if isinstance(e, ast.Call) and isinstance(e.func, ast.Name) and len(e.args) == 1 and not e.keywords:
            if e.func.id in ("bytearray", "bytes", "list", "tuple"):
                a = e.args[0]
                if isinstance(a, (ast.GeneratorExp, ast.ListComp)):
                    return self.comp_seq(a)
                return self.seq(a)
            if e.func.id == "reversed":
                inner = self.seq(e.args[0])
                return inner.reversed() if inner is not None else None
        if isinstance(e, (ast.GeneratorExp, ast.ListComp)):
            return self.comp_seq(e)
        return None

    def comp_seq(self, c):
        """data[AFFINE(v)] for v in range([a,] b)"""
        if len(c.generators) != 1 or c.generators[0].ifs or not isinstance(c.generators[0].target, ast.Name):
            return None
        g = c.generators[0]
        it = g.iter
        if not (isinstance(it, ast.Call) and isinstance(it.func, ast.Name) and it.func.id == "range" and 1 <= len(it.args) <= 2 and not it.keywords):
            return None
        el = c.elt
        if not (isinstance(el, ast.Subscript) and isinstance(el.value, ast.Name) and el.value.id == self.data and not isinstance(el.slice, ast.Slice)):
            return None
        v = g.target.id
        lo = self.expr(it.args[0]) if len(it.args) == 2 else Aff(0)
        hi = self.expr(it.args[-1])
        saved = self.env.get(v)
        self.env[v] = lo
        s0 = self.expr(el.slice)
        self.env[v] = lo + 1
        s1 = self.expr(el.slice)
        self.env[v] = lo + 2
        s2 = self.expr(el.slice)
        if saved is None:
            self.env.pop(v, None)
        else:
            self.env[v] = saved
        d = B.norm(s1 - s0)
        if not d.is_const() or not B.is_zero(s2 - s1 - d):
            raise Unknown("comprehension index not affine in its variable")
        T = hi - lo if B.decide_ge0(hi - lo - 1, "comprehension@%d non-empty" % c.lineno) else Aff(0)
        return Seq([(s0, int(d.c), T)])

    def test(self, t):
        """-> form g with the meaning g >= 0, for an affine comparison."""
        if isinstance(t, ast.Compare) and len(t.ops) == 1:
            a, b = self.expr(t.left), self.expr(t.comparators[0])
            op = t.ops[0]
            if isinstance(op, ast.Lt):
                return ("ge", b - a - 1)
            if isinstance(op, ast.LtE):
                return ("ge", b - a)
            if isinstance(op, ast.Gt):
                return ("ge", a - b - 1)
            if isinstance(op, ast.GtE):
                return ("ge", a - b)
            if isinstance(op, ast.Eq):
                return ("eq", a - b)
            if isinstance(op, ast.NotEq):
                return ("ne", a - b)
        raise Unknown("test %s in a weave function" % ast.unparse(t))

    def decide(self, t, label):
        kind, g = self.test(t)
        if kind == "ge":
            return B.decide_ge0(g, label)
        r = B.decide_eq0(g, label)
        return r if kind == "eq" else not r

    def block(self, body):
        for st in body:
            if self.returned:
                return
            self.stmt(st)

    def stmt(self, st):
        if isinstance(st, ast.Assign) and len(st.targets) == 1:
            t, v = st.targets[0], st.value
            if isinstance(t, ast.Name):
                sq = self.seq(v)
                if sq is not None:
                    self.seqs[t.id] = sq
                    return
                if isinstance(v, ast.Call) and isinstance(v.func, ast.Name) and v.func.id == "bytearray" and len(v.args) == 1 and not v.keywords:
                    try:
                        n = self.expr(v.args[0])
                    except Unknown:
                        n = None
                    if n is not None and B.is_zero(n - self.L):
                        self.buffer = t.id
                        return
                    raise Unknown("buffer %s is not allocated with the length of the data" % t.id)
                self.env[t.id] = self.expr(v)
                return
            if isinstance(t, ast.Subscript) and isinstance(t.value, ast.Name):
                if isinstance(t.slice, ast.Slice) and t.value.id == self.data and t.slice.lower is None and t.slice.upper is None \
                        and isinstance(v, ast.Name) and v.id == self.buffer:
                    self.committed = True
                    return
                sq = self.seq(v)
                if sq is not None and isinstance(t.slice, ast.Slice) and t.slice.lower is None and t.slice.upper is None and t.slice.step is None \
                        and t.value.id == self.data:
                    # data[:] = <sequence over the data>: the result replaces the buffer wholesale
                    self.buffer = "<result>"
                    off = Aff(0)
                    for s0, d, T in sq.pieces:
                        self.families.append(Family("<result>", off, 1, self.data, s0, d, T))
                        off = off + T
                    self.result_len = off
                    self.committed = True
                    return
                if sq is not None and isinstance(t.slice, ast.Slice) and t.value.id == self.buffer and self.buffer is not None:
                    # buffer[a::s] = <sequence>: an extended-slice store needs exactly as many elements as slots
                    a0, st_, slots = self.slice_piece(t.slice, "store slice@%d" % st.lineno)
                    if not B.is_zero(sq.total() - slots):
                        raise Resize("slice store of %r elements into %r slots at line %d" % (B.norm(sq.total()), B.norm(slots), st.lineno),
                                     B.const_of(sq.total()), B.const_of(slots), t.slice.step is None)
                    off = Aff(0)
                    for s0, d, T in sq.pieces:
                        self.families.append(Family(self.buffer, a0 + Aff.of(off).scale(st_), st_, self.data, s0, d, T))
                        off = off + T
                    return
                if isinstance(v, ast.Subscript) and isinstance(v.value, ast.Name) and not isinstance(t.slice, ast.Slice) and not isinstance(v.slice, ast.Slice):
                    # a single element copy outside a loop: a family of one
                    self.families.append(Family(t.value.id, self.expr(t.slice), 0, v.value.id, self.expr(v.slice), 0, Aff(1)))
                    return
            raise Unknown("assignment %s in a weave function" % ast.unparse(st))
        if isinstance(st, ast.AugAssign) and isinstance(st.target, ast.Name) and isinstance(st.op, (ast.Add, ast.Sub)):
            d = self.expr(st.value)
            self.env[st.target.id] = self.env[st.target.id] + (d if isinstance(st.op, ast.Add) else -d)
            return
        if isinstance(st, ast.If):
            if self.decide(st.test, "%s@%d" % (ast.unparse(st.test), st.lineno)):
                self.block(st.body)
            else:
                self.block(st.orelse)
            return
        if isinstance(st, ast.Return) and st.value is None:
            self.returned = True
            return
        if isinstance(st, ast.While):
            self.loop(st)
            return
        if isinstance(st, ast.For):
            self.for_loop(st)
            return
        if isinstance(st, ast.Pass) or (isinstance(st, ast.Expr) and isinstance(st.value, ast.Constant)):
            return
        if isinstance(st, ast.Expr) and isinstance(st.value, ast.Call) and isinstance(st.value.func, ast.Attribute) and st.value.func.attr == "reverse" \
                and isinstance(st.value.func.value, ast.Name) and st.value.func.value.id in self.seqs and not st.value.args:
            self.seqs[st.value.func.value.id] = self.seqs[st.value.func.value.id].reversed()
            return
        raise Unknown("statement %s in a weave function" % ast.unparse(st)[:60])

    def loop(self, st):
        if st.orelse:
            raise Unknown("while-else")
        kind, g0 = self.test(st.test)
        if kind != "ge":
            raise Unknown("loop test %s is not an inequality" % ast.unparse(st.test))
        # execute the body once with every variable at its iteration-k value v0 + delta*k; deltas are found by
        # executing the body on the entry state first (they must be constants independent of k)
        entry = dict(self.env)
        fams_before = len(self.families)
        self.block_loop_body(st.body)
        deltas = {}
        for v in self.env:
            d = B.norm(self.env[v] - entry.get(v, self.env[v]))
            if not d.is_const():
                raise Unknown("variable %s does not advance by a constant in the loop at line %d" % (v, st.lineno))
            deltas[v] = d.c
        first = self.families[fams_before:]
        del self.families[fams_before:]
        self.env = dict(entry)
        gk = B.norm(self.test(st.test)[1])
        # per-iteration change of the loop test
        env1 = {v: entry[v] + Aff(deltas[v]) for v in entry}
        self.env = env1
        g1 = B.norm(self.test(st.test)[1])
        self.env = dict(entry)
        gamma = B.norm(g1 - gk)
        if not gamma.is_const() or gamma.c >= 0:
            raise Unknown("loop at line %d: the test does not decrease by a constant per iteration" % st.lineno)
        step = int(-gamma.c)
        if B.decide_ge0(gk, "loop@%d entered" % st.lineno):
            q, _ = B.divmod_const(gk, step)
            T = q + 1
        else:
            T = Aff(0)
        for f in first:
            # f was recorded at k = 0; its per-iteration strides come from the deltas of the variables it used
            self.families.append(Family(f.dst_buf, f.dst0, f.dstd_fn(deltas), f.src_buf, f.src0, f.srcd_fn(deltas), T))
        self.env = {v: entry[v] + Aff.of(T).scale(deltas[v]) for v in entry}

    def for_loop(self, st):
        """for v in range([lo,] hi): copies with indices affine in v -> families with T = hi - lo."""
        it = st.iter
        if st.orelse or not isinstance(st.target, ast.Name) or not (isinstance(it, ast.Call) and isinstance(it.func, ast.Name) and it.func.id == "range"
                                                                    and 1 <= len(it.args) <= 2 and not it.keywords):
            raise Unknown("loop %s" % ast.unparse(st)[:60])
        v = st.target.id
        lo = self.expr(it.args[0]) if len(it.args) == 2 else Aff(0)
        hi = self.expr(it.args[-1])
        T = hi - lo if B.decide_ge0(hi - lo - 1, "loop@%d entered" % st.lineno) else Aff(0)
        for b in st.body:
            if not (isinstance(b, ast.Assign) and len(b.targets) == 1 and isinstance(b.targets[0], ast.Subscript) and isinstance(b.value, ast.Subscript)
                    and isinstance(b.targets[0].value, ast.Name) and isinstance(b.value.value, ast.Name)
                    and not isinstance(b.targets[0].slice, ast.Slice) and not isinstance(b.value.slice, ast.Slice)):
                raise Unknown("statement %s in a weave loop" % ast.unparse(b)[:60])
            saved = self.env.get(v)
            self.env[v] = lo
            d0, s0 = self.expr(b.targets[0].slice), self.expr(b.value.slice)
            self.env[v] = lo + 1
            d1, s1 = self.expr(b.targets[0].slice), self.expr(b.value.slice)
            dd, sd = B.norm(d1 - d0), B.norm(s1 - s0)
            # affine in v: the second difference vanishes
            self.env[v] = lo + 2
            d2, s2 = self.expr(b.targets[0].slice), self.expr(b.value.slice)
            if not (dd.is_const() and sd.is_const() and B.is_zero(d2 - d1 - dd) and B.is_zero(s2 - s1 - sd)):
                raise Unknown("index not affine in the loop variable at line %d" % b.lineno)
            if saved is None:
                self.env.pop(v, None)
            else:
                self.env[v] = saved
            self.families.append(Family(b.targets[0].value.id, d0, int(dd.c), b.value.value.id, s0, int(sd.c), T))

    def block_loop_body(self, body):
        for st in body:
            if isinstance(st, ast.Assign) and len(st.targets) == 1 and isinstance(st.targets[0], ast.Subscript) and isinstance(st.value, ast.Subscript) \
                    and isinstance(st.targets[0].value, ast.Name) and isinstance(st.value.value, ast.Name) \
                    and not isinstance(st.targets[0].slice, ast.Slice) and not isinstance(st.value.slice, ast.Slice):
                t, v = st.targets[0], st.value
                snapshot = dict(self.env)
                d0, s0 = self.expr(t.slice), self.expr(v.slice)
                f = Family(t.value.id, d0, None, v.value.id, s0, None, None)
                f.dstd_fn = self._stride(t.slice, snapshot)
                f.srcd_fn = self._stride(v.slice, snapshot)
                self.families.append(f)
            elif isinstance(st, ast.AugAssign) and isinstance(st.target, ast.Name) and isinstance(st.op, (ast.Add, ast.Sub)):
                d = self.expr(st.value)
                if not B.norm(d).is_const():
                    raise Unknown("loop counter advanced by a non-constant")
                self.env[st.target.id] = self.env[st.target.id] + (d if isinstance(st.op, ast.Add) else -d)
            else:
                raise Unknown("statement %s in a weave loop" % ast.unparse(st)[:60])

    def _stride(self, index_expr, env_at_store):
        """How much the index expression changes from one iteration to the next: evaluate it with every variable
        shifted by its per-iteration delta."""
        def fn(deltas, index_expr=index_expr, env_at_store=env_at_store):
            saved = self.env
            self.env = env_at_store
            a = self.expr(index_expr)
            self.env = {v: env_at_store[v] + Aff(deltas.get(v, 0)) for v in env_at_store}
            b = self.expr(index_expr)
            self.env = saved
            d = B.norm(b - a)
            if not d.is_const():
                raise Unknown("index stride is not constant")
            return int(d.c)
        return fn


class Resize(Unknown):
    """A slice store whose element count differs from its slot count."""

    def __init__(self, msg, elements, slots, plain):
        Unknown.__init__(self, msg)
        self.elements, self.slots, self.plain = elements, slots, plain


def _resize_witness(fi, fd, consts, rho):
    """A concrete length at which one of the two functions stores k elements into j != k slots of its buffer: Python
    then resizes the buffer (plain slice; the data changes length) or raises ValueError (extended slice)."""
    for n in range(rho, 24, 2):
        for name, fn in (("interleave", fi), ("deinterleave", fd)):
            def task(fn=fn, n=n):
                try:
                    Summary(fn, Aff(n), consts).run()
                except Resize as r:
                    return r
                except Unknown:
                    return None
                return None
            for _p, st, r in B.explore(task):
                if st == "ok" and isinstance(r, Resize) and r.elements is not None and r.slots is not None and r.elements != r.slots:
                    return "witness length %d: %s stores %d element(s) into %d slot(s) of its buffer: %s" % (
                        n, name, r.elements, r.slots,
                        "the buffer, and with it the data, changes length" if r.plain else "Python raises ValueError")
    return None


def inverse_permutations(rep, index, m):
    fi, fd = m.functions["interleave"], m.functions["deinterleave"]
    n_paths = 0
    del _PENDING[:], _FAILED[:]
    for rho in (0, 1):
        def task(rho=rho):
            half = B.fresh("m", 0, None)
            L = half.scale(2) + rho
            si = Summary(fi, L, m.consts).run()
            sd = Summary(fd, L, m.consts).run()
            return L, si, sd, half
        try:
            paths = B.explore(task)
        except Resize as e:
            w = _resize_witness(fi, fd, m.consts, rho)
            if w is None:
                raise AnalysisError("weave clause undecidable on this tree: %s" % e)
            rep.ob("C10.W3 each-function-applies-one-permutation", "len = 2m+%d" % rho, False, w)
            n_paths += 1
            continue
        except Unknown as e:
            raise AnalysisError("weave clause undecidable on this tree: %s" % e)
        for p, st, val in paths:
            B.set_path(p)
            n_paths += 1
            where = "len = 2m+%d path[%s]" % (rho, ",".join("%s=%s" % (k, "T" if v else "F") for k, v in p.log) or "-")
            if st != "ok":
                rep.ob("C10.W3 weave-total", where, False, "raises")
                continue
            L, si, sd, half = val
            fam_i = _effective(si)
            fam_d = _effective(sd)
            lo, hi = B.bounds(half)
            lo = int(lo or 0)
            lengths = [2 * h + rho for h in range(lo, lo + 24) if hi is None or h <= hi]
            witness = _Witness(fi, fd, m.consts, lengths)
            _total_map(rep, "interleave", where, si, fam_i, L, "src", witness)
            _total_map(rep, "deinterleave", where, sd, fam_d, L, "dst", witness)
            _composition(rep, where, fam_i, fam_d, L, witness)
    rep.count("weave paths", n_paths)
    rep.floor("weave paths", 2)
    if _PENDING and not _FAILED:
        raise AnalysisError(_PENDING[0])


class _Witness:
    """A symbolic mismatch is reported only with a concrete length at which the closed-form summaries (instantiated,
    all forms constant) really fail; a mismatch without one is a decomposition the matcher does not understand
    (exit 2), never an alarm."""

    def __init__(self, fi, fd, consts, lengths):
        self.fi, self.fd, self.consts, self.lengths = fi, fd, consts, lengths

    def _perm(self, fn, n):
        """-> list p with out[p_dst] = in[p_src] as dst->src map, or None (identity), or a string (what is wrong)."""
        s = Summary(fn, Aff(n), self.consts).run()
        if not s.committed:
            return None
        out = {}
        for f in s.families:
            T = B.const_of(f.T)
            if T is None:
                raise Unknown("trip count not constant at a concrete length")
            if (f.dst_buf, f.src_buf) != (s.buffer, s.data):
                return "copies %s <- %s" % (f.dst_buf, f.src_buf)
            for k in range(int(T)):
                d, sidx = B.const_of(f.dst(k)), B.const_of(f.src(k))
                if d is None or sidx is None:
                    raise Unknown("index not constant at a concrete length")
                for nm, ix in (("store", d), ("load", sidx)):
                    if not -n <= ix < n:
                        return "%s index %d outside a buffer of %d" % (nm, ix, n)
                out[int(d) % n if n else int(d)] = int(sidx) % n if n else int(sidx)
        if sorted(out) != list(range(n)) or sorted(out.values()) != list(range(n)):
            missing = sorted(set(range(n)) - set(out))
            unread = sorted(set(range(n)) - set(out.values()))
            return "positions %s never written, positions %s never read" % (missing[:4], unread[:4])
        return [out[i] for i in range(n)]

    def not_total(self, which):
        fn = self.fi if which == "interleave" else self.fd
        for n in self.lengths:
            r = self._perm(fn, n)
            if isinstance(r, str):
                return "length %d: %s" % (n, r)
        return None

    def not_inverse(self):
        for n in self.lengths:
            a, b = self._perm(self.fi, n), self._perm(self.fd, n)
            if isinstance(a, str) or isinstance(b, str):
                continue  # W3's business
            a = a if a is not None else list(range(n))
            b = b if b is not None else list(range(n))
            # y = interleave(x): y[i] = x[a[i]];  z = deinterleave(y): z[i] = y[b[i]] = x[a[b[i]]]
            for i in range(n):
                if a[b[i]] != i:
                    return "length %d: position %d comes back from position %d" % (n, i, a[b[i]])
            for i in range(n):
                if b[a[i]] != i:
                    return "length %d (interleave after deinterleave): position %d comes back from position %d" % (n, i, b[a[i]])
        return None


_PENDING = []
_FAILED = []


def _confirm(rep, rule, inst, ok, why, witness_fn):
    """ok -> discharged; not ok -> violation only with a concrete witness length, otherwise analysis failure."""
    if ok:
        rep.ob(rule, inst, True, why)
        return
    try:
        w = witness_fn()
    except Unknown as e:
        raise AnalysisError("weave clause: symbolic mismatch (%s) and the summaries cannot be instantiated: %s" % (why, e))
    if w is None:
        _PENDING.append("weave clause: %s %s: symbolic argument fails (%s) but the instantiated summaries agree at every "
                        "examined length; the decomposition is not understood -- undecided" % (rule, inst, why))
        return
    _FAILED.append(inst)
    rep.ob(rule, inst, False, "%s; witness %s" % (why, w))


def _effective(s):
    """Families that take effect: none if the function returned before committing its buffer."""
    if not s.committed:
        return None  # identity
    return s.families


def _total_map(rep, name, where, s, fams, L, ordered, witness):
    inst = "%s %s" % (name, where)
    if fams is None:
        rep.ob("C10.W3 each-function-applies-one-permutation", inst, not s.families or True,
               "returns before committing: the identity on this path")
        return
    ok = True
    why = []
    base = Aff(0)
    for j, f in enumerate(fams):
        bufs_ok = (f.dst_buf == s.buffer and f.src_buf == s.data)
        if not bufs_ok:
            ok = False
            why.append("family %d copies %s <- %s" % (j, f.dst_buf, f.src_buf))
            continue
        nonempty = B.prove_ge0(f.T - 1)
        if nonempty is False:
            continue
        side0, sided = (f.src0, f.srcd) if ordered == "src" else (f.dst0, f.dstd)
        o0, od = (f.dst0, f.dstd) if ordered == "src" else (f.src0, f.srcd)
        # ordered side: the next contiguous block of T positions, walked upwards from its bottom or downwards from its top
        up = sided == 1 and B.is_zero(side0 - base)
        down = sided == -1 and B.is_zero(side0 - (base + f.T - 1))
        if not (up or down):
            ok = False
            why.append("family %d: the %s side starts at %r with stride %s (expected the block of %r positions from %r)"
                       % (j, ordered, B.norm(side0), sided, B.norm(f.T), B.norm(base)))
        base = base + f.T
        # other side: inside the buffer at both ends (affine => everywhere in between)
        last = o0 + (Aff.of(f.T) - 1).scale(od)
        for pos, nm in ((o0, "first"), (last, "last")):
            inb = B.prove_ge0(pos) is True and B.prove_ge0(L - 1 - pos) is True
            if nonempty is True and not inb:
                ok = False
                why.append("family %d: %s index %r not proved inside 0..len-1" % (j, nm, B.norm(pos)))
            if nonempty is None:
                ok = False
                why.append("family %d: emptiness undecided" % j)
    if not B.is_zero(base - L):
        ok = False
        why.append("the %s side covers %r positions, the data has %r" % (ordered, B.norm(base), B.norm(L)))
    _confirm(rep, "C10.W3 each-function-applies-one-permutation", inst, ok,
             "; ".join(why) or "%d famil%s: the %s side runs through 0..len-1 exactly once, every other index is inside the buffer"
             % (len(fams), "y" if len(fams) == 1 else "ies", ordered), lambda: witness.not_total(name))


def _composition(rep, where, fam_i, fam_d, L, witness):
    inst = "deinterleave(interleave(.)) %s" % where
    if fam_i is None and fam_d is None:
        rep.ob("C10.W4 mutually-inverse", inst, True, "both are the identity on this path")
        return

    def identity(fams):
        for f in fams:
            if B.prove_ge0(f.T - 1) is False:
                continue
            first = B.norm(f.dst0 - f.src0)
            last = B.norm(f.dst(f.T - 1) - f.src(f.T - 1))
            if not (B.is_zero(first) and B.is_zero(last)):
                return False, "moves position %r to %r" % (B.norm(f.src0), B.norm(f.dst0)) if not B.is_zero(first) else \
                    "moves position %r to %r" % (B.norm(f.src(f.T - 1)), B.norm(f.dst(f.T - 1)))
        return True, ""
    if fam_i is None or fam_d is None:
        other = fam_d if fam_i is None else fam_i
        ok, why = identity(other)
        _confirm(rep, "C10.W4 mutually-inverse", inst, ok,
                 "one function returns early (identity) on this path while the other %s" % (why or "is the identity too"), witness.not_inverse)
        return
    if len(fam_i) != len(fam_d):
        _confirm(rep, "C10.W4 mutually-inverse", inst, False,
                 "interleave has %d copy families, deinterleave %d" % (len(fam_i), len(fam_d)), witness.not_inverse)
        return
    ok = True
    why = []
    for j, (f, g) in enumerate(zip(fam_i, fam_d)):
        # the element interleave moves src(k) -> dst(k) must be picked up by deinterleave at src'(k) = dst(k) and put back at dst'(k) = src(k)
        same_T = B.is_zero(f.T - g.T)
        if same_T and B.prove_ge0(f.T - 1) is False:
            continue  # both families are empty on this path
        picks = B.is_zero(g.src0 - f.dst0) and g.srcd == f.dstd
        puts = B.is_zero(g.dst0 - f.src0) and g.dstd == f.srcd
        if same_T and not (picks and puts):
            # the same pairs walked in the opposite direction
            picks = B.is_zero(g.src0 - f.dst(f.T - 1)) and g.srcd == -f.dstd
            puts = B.is_zero(g.dst0 - f.src(f.T - 1)) and g.dstd == -f.srcd
        if not (same_T and picks and puts):
            ok = False
            why.append("family %d: interleave moves %r+%dk -> %r+%dk (k < %r), deinterleave moves %r+%dk -> %r+%dk (k < %r)"
                       % (j, B.norm(f.src0), f.srcd, B.norm(f.dst0), f.dstd, B.norm(f.T), B.norm(g.src0), g.srcd, B.norm(g.dst0), g.dstd, B.norm(g.T)))
    _confirm(rep, "C10.W4 mutually-inverse", inst, ok, "; ".join(why) or "every family of deinterleave undoes the corresponding family of interleave",
             witness.not_inverse)
