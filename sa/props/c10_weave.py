"""C10, weave clause: interleave and deinterleave are mutually inverse permutations.
(Closed-form loop summarisation; not built yet -- the clause is reported as undecided.)"""


def inverse_permutations(rep, index, m):
    rep.undecided.append("interleave/deinterleave are mutually inverse permutations of positions: needs closed-form "
                         "summaries of the two weave loops (affine counters, parity split); not decided in this version")
