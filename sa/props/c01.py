"""C01 -- generated serializers round-trip every well-formed message (engine C; structural half)."""
from ..genabs import lattice, objrules, skel
from ..genabs.wire import Unrecognised
from ._genprops import canon_read, canon_write, each_class, mirror, ob
from . import c04, c06


def analyse(fam, shape, placement, outcomes):
    out = []
    for o in outcomes:
        if o.rejected or skel.s_parse(o.value):
            continue
        sk = o.value
        du = skel.s_defuse(sk, extra_known=("E", "SF", "SB", "SU", "SC", "SP", "SX", "SW", "SK"))
        try:
            for cn, view, scope, cls in each_class(shape, placement, o):
                if view.err:
                    raise Unrecognised(view.err)
                d = mirror(canon_write(view.w.tokens), canon_read(view.r.tokens))
                out.append(ob("C01.S1 reader-mirrors-writer", shape, placement, o, cn, d is None,
                              d or "serialize and deserialize are mirror images: field for field, width for width, delimiter for delimiter, guard for guard", "C01"))
                mine = [x for x in du if x[1].startswith(cn + ".") and x[1].count(".") == cn.count(".") + 1]
                out.append(ob("C01.S2 no-unbound-name-in-emitted-methods", shape, placement, o, cn, not mine,
                              "; ".join("%s: %s" % (w, d2) for _, w, d2 in mine[:2]) or "every name read in __init__/serialize/deserialize is bound on every path", "C01"))
                cr = objrules.ctor_rules(cn, cls, scope)
                out.append(ob("C01.S3 constructor-and-derived-lengths", shape, placement, o, cn, not cr,
                              "; ".join(d2 for _, _, d2 in cr[:2]) or "one keyword parameter per field; length fields derived as len(referent) after it is stored", "C01"))
                nf = objrules.none_flow(cls)
                out.append(ob("C01.S4 objects-with-absent-optionals-are-constructible", shape, placement, o, cn, not nf,
                              "; ".join(d2 for _, _, d2 in nf[:2]) or "no Optional value reaches tuple()/len() unguarded", "C01"))
                tl = objrules.tail_rules(cn, view, scope)
                out.append(ob("C01.S5 byte-size-is-the-position-delta", shape, placement, o, cn, not tl,
                              "; ".join(d2 for _, _, d2 in tl[:2]) or "start position saved before the first read; byte_size = position - start on the result", "C01"))
        except ValueError as e:
            out.append(ob("C01.S0 reference-defined", shape, placement, o, "T", False, str(e), "C01"))
    return out


def run(rep, index):
    rep.level = "other"
    rep.explanation = ("Structural half of round-tripping for all specs and values: on every emitted class of the shape lattice the writer's and "
                       "the reader's statement sequences are mirror images under the inverse table (S-mirror, extracted by data flow), no "
                       "emitted method can die on an unbound name, the constructor takes exactly the declared fields and derives length "
                       "fields from their referents, absent optionals are constructible, and byte_size is the reader position delta. "
                       "Together with the primitive round trips (C04 with C07/C08, re-run) this is the compositional argument. NOT decided: "
                       "end-to-end equality of arbitrary values (needs the wire-unambiguity side conditions and codec library facts).")
    results, stats = lattice.sweep(index.repo, analyse, rep.tier)
    for rule, inst, ok, detail, key in results:
        rep.ob(rule, inst, ok, detail, key=key)
    for k, v in stats.items():
        rep.count("lattice " + k, v)
    rep.floor("lattice accepted", 300)
    c06.include(rep, "C01.P1 primitive-round-trips", "C04", lambda sub: c04.run(sub, index))
    rep.undecided.append("end-to-end value equality for arbitrary values: wire-unambiguity side conditions of the quantifier and cp1252 library behaviour")
