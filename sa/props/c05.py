"""C05 -- EoReader follows the chunked-reading model and never leaves its data (engines A + B)."""
import ast

from .. import affine as B
from ..affine import Aff
from ..core import AnalysisError
from ..index import walk_no_nested
from ..numeval import Frame, Obj
from ..reader_model import AbsData, DataView, ReaderWorld, StrResult

MOD = "eolib.data.eo_reader"
MODEL = "refs.reader_model.ModelReader"

# public reads: name -> (kind, fixed byte count or None)
TYPED = {"get_char": 1, "get_short": 2, "get_three": 3, "get_int": 4}


class Roles:
    """Which instance field plays which role of the model state (discovered, not assumed by name)."""

    def __init__(self, data, pos, mode, chunk, brk):
        self.data, self.pos, self.mode, self.chunk, self.brk = data, pos, mode, chunk, brk


def discover_roles(rep, index):
    """Run __init__ on abstract data and identify the five state fields by behaviour."""
    found = {}

    def task():
        w = ReaderWorld(index)
        d = AbsData()
        r = w.new_reader(d)
        fields = dict(r.d)
        data_f = [k for k, v in fields.items() if v is d]
        bool_f = [k for k, v in fields.items() if isinstance(v, bool)]
        int_f = [k for k, v in fields.items() if isinstance(v, int) and not isinstance(v, bool)]
        if len(data_f) != 1 or len(bool_f) != 1 or len(int_f) != 3 or len(fields) != 5:
            raise AnalysisError("EoReader.__init__ no longer creates the five state fields "
                                "(data, position, mode, chunk start, break cache): %r" % (fields,))
        # position: the int field the `position` property returns
        marks = {}
        for k in int_f:
            marks[k] = B.fresh("mark_" + k, None, None)
            r.d[k] = marks[k]
        pos_v = w.prop(r, "position")
        pos_f = [k for k in int_f if pos_v is marks[k] or (isinstance(pos_v, Aff) and B.is_zero(pos_v - marks[k]))]
        for k in int_f:
            r.d[k] = fields[k]
        if len(pos_f) != 1:
            raise AnalysisError("cannot identify the position field through the position property")
        rest = [k for k in int_f if k != pos_f[0]]
        brk_f = [k for k in rest if fields[k] == -1]
        chunk_f = [k for k in rest if fields[k] == 0]
        if len(brk_f) != 1 or len(chunk_f) != 1:
            raise AnalysisError("cannot identify chunk-start (initially 0) and break cache (initially -1): %r" % fields)
        init_ok = fields[pos_f[0]] == 0 and fields[bool_f[0]] is False
        found["roles"] = Roles(data_f[0], pos_f[0], bool_f[0], chunk_f[0], brk_f[0])
        found["init_ok"] = init_ok
        found["init"] = fields
        return None

    paths = B.explore(task)
    if len(paths) != 1:
        raise AnalysisError("EoReader.__init__ forks")
    rep.ob("C05.R0 initial-state", "EoReader.__init__", found["init_ok"],
           "fresh reader: %r (model: position 0, mode off, chunk start 0, no cached break)" % ({k: v for k, v in found["init"].items() if not isinstance(v, AbsData)},))
    return found["roles"]


def abstract_state(w, roles, mode=None):
    """A reader in an arbitrary state satisfying the invariant
       0<=P<=L, 0<=C<=L, (B == -1 and C == 0 and not M) or B == FF(C)."""
    d = AbsData()
    r = w.new_reader(d)
    L = d.L
    P = B.fresh("P", 0, None)
    B.assume_ge0(L - P)
    M = B.cur().choose("chunked mode on") if mode is None else mode
    cached = True if M else B.cur().choose("break cached")
    if cached:
        C = B.fresh("C", 0, None)
        B.assume_ge0(L - C)
        Bk = d.ff(C)
    else:
        C = 0
        Bk = -1
    r.d[roles.pos], r.d[roles.mode], r.d[roles.chunk], r.d[roles.brk] = P, M, C, Bk
    return d, r, P, M, C, Bk


def model_of(w, d, P, M, C):
    return w.ev.instantiate(MODEL, [d, P, M, C])


def check_post(rep, inst, w, roles, d, r, model):
    """Refinement relation and invariant after an operation."""
    fr = Frame(w.ev, w.m, {})
    P2, M2, C2, B2 = r.d[roles.pos], r.d[roles.mode], r.d[roles.chunk], r.d[roles.brk]
    mP, mM, mC = model.d["P"], model.d["M"], model.d["C"]
    okP = isinstance(P2, (int, Aff)) and B.is_zero(Aff.of(P2) - Aff.of(mP))
    rep.ob("C05.R2 position-agrees-with-model", inst, okP, "position' = %r, model %r" % (_n(P2), _n(mP)))
    rep.ob("C05.R2 mode-agrees-with-model", inst, isinstance(M2, bool) and M2 == mM, "mode' = %r, model %r" % (M2, mM))
    okC = isinstance(C2, (int, Aff)) and B.is_zero(Aff.of(C2) - Aff.of(mC))
    rep.ob("C05.R2 chunk-start-agrees-with-model", inst, okC, "chunk start' = %r, model %r" % (_n(C2), _n(mC)))
    if not (okP and okC and isinstance(M2, bool)):
        return
    L = d.L
    inb = B.prove_ge0(Aff.of(P2)) is True and B.prove_ge0(L - Aff.of(P2)) is True
    rep.ob("C05.R3 position-within-data", inst, inb, "0 <= %r <= len(data) %sproved" % (_n(P2), "" if inb else "NOT "))
    inc = B.prove_ge0(Aff.of(C2)) is True and B.prove_ge0(L - Aff.of(C2)) is True
    uncached = isinstance(B2, (int, Aff)) and B.is_zero(Aff.of(B2) + 1)
    cached = isinstance(B2, (int, Aff)) and B.is_zero(Aff.of(B2) - d.ff(C2)) if inc else False
    inv = inc and ((uncached and not M2 and B.is_zero(Aff.of(C2))) or cached)
    rep.ob("C05.R4 break-cache-invariant", inst, inv,
           "chunk start' = %r, cached break' = %r, mode' = %s: cache must be -1 (never switched, chunk start 0) or FF(chunk start)"
           % (_n(C2), _n(B2), M2))
    extra = set(r.d) - {roles.data, roles.pos, roles.mode, roles.chunk, roles.brk}
    rep.ob("C05.R5 no-hidden-state", inst, not extra and r.d[roles.data] is d, "fields: %s" % sorted(r.d))


def check_reads(rep, inst, d, upto=None):
    reads = d.reads if upto is None else d.reads[:upto]
    bad = [x for x in reads if not x[-2]]
    rep.ob("C05.R6 reads-inside-data", inst, not bad,
           "%d buffer access(es), out-of-range or unproved: %r" % (len(reads), [(x[0], _n(x[1])) for x in bad][:3]))


def run(rep, index):
    rep.level = "proof"
    rep.explanation = ("Per-operation refinement: every public operation of the real EoReader class is interpreted by engine B "
                       "on a symbolic reader state satisfying an inductive invariant (position and chunk start within the data, "
                       "break cache either unset or FF(chunk start)), next to the documented reference model interpreted on the "
                       "same state; results, bytes consumed and post-states must agree on every path and every buffer access "
                       "must be proved inside the data. FF is tied to the code by a loop-form rule on the first-0xFF search. "
                       "Agreement per operation + inductive invariant = agreement on every history, including slices of slices.")
    m, cls = index.klass(MOD + ".EoReader")
    roles = discover_roles(rep, index)
    ownership(rep, index, m, cls, roles)
    public = [f.name for f in index.methods(cls) if not f.name.startswith("_")]
    rep.count("public operations", len(public))
    rep.floor("public operations", 15)

    # ---- remaining / position
    def t_remaining():
        w = ReaderWorld(index)
        d, r, P, M, C, Bk = abstract_state(w, roles)
        got = w.prop(r, "remaining")
        pos = w.prop(r, "position")
        n = len(d.reads)
        mo = model_of(w, d, P, M, C)
        want = w.ev.call(Frame(w.ev, w.m, {}).getattr(mo, "remaining"), [], {})
        return w, d, r, mo, got, want, pos, P, n
    for p, st, val in _paths(rep, t_remaining, "remaining"):
        B.set_path(p)
        w, d, r, mo, got, want, pos, P, n = val
        inst = "EoReader.remaining path[%s]" % _fmt(p)
        rep.ob("C05.R1 remaining-equals-model", inst, B.is_zero(Aff.of(got) - Aff.of(want)), "remaining = %r, model %r" % (_n(got), _n(want)))
        rep.ob("C05.R1 remaining-non-negative", inst, B.prove_ge0(Aff.of(got)) is True, "remaining = %r" % _n(got))
        rep.ob("C05.R1 position-property", inst, B.is_zero(Aff.of(pos) - P), "position = %r" % _n(pos))
        check_post(rep, inst, w, roles, d, r, mo)
        check_reads(rep, inst, d, n)

    # ---- get_byte
    def t_get_byte():
        w = ReaderWorld(index)
        d, r, P, M, C, Bk = abstract_state(w, roles)
        st, got = w.call(r, "get_byte", [])
        n = len(d.reads)
        mo = model_of(w, d, P, M, C)
        want = w.ev.call(Frame(w.ev, w.m, {}).getattr(mo, "get_byte"), [], {})
        return w, d, r, mo, st, got, want, n
    for p, pst, val in _paths(rep, t_get_byte, "get_byte"):
        B.set_path(p)
        w, d, r, mo, st, got, want, n = val
        inst = "EoReader.get_byte path[%s]" % _fmt(p)
        ok = st == "ok" and isinstance(got, (int, Aff)) and B.is_zero(Aff.of(got) - Aff.of(want))
        rep.ob("C05.R7 get_byte-equals-model", inst, ok, "%s %r, model %r" % (st, _n(got), _n(want)))
        check_post(rep, inst, w, roles, d, r, mo)
        check_reads(rep, inst, d, n)

    # ---- reads of n bytes: get_bytes(n), typed integers, strings
    READS = [("get_bytes", ["n"], "n"), ("get_string", [], "all"), ("get_encoded_string", [], "all"),
             ("get_fixed_string", ["n", "padded"], "n"), ("get_fixed_encoded_string", ["n", "padded"], "n")]
    READS += [(k, [], v) for k, v in TYPED.items()]
    for meth, params, amount in READS:
        def t_read(meth=meth, params=params, amount=amount):
            w = ReaderWorld(index)
            d, r, P, M, C, Bk = abstract_state(w, roles)
            args = []
            n = None
            for prm in params:
                if prm == "n":
                    n = B.fresh("n", 0, None)
                    args.append(n)
                else:
                    args.append(B.cur().choose("padded"))
            st, got = w.call(r, meth, args)
            nreads = len(d.reads)
            mo = model_of(w, d, P, M, C)
            fr = Frame(w.ev, w.m, {})
            if amount == "all":
                want = w.ev.call(fr.getattr(mo, "read_all"), [], {})
            else:
                want = w.ev.call(fr.getattr(mo, "read"), [n if amount == "n" else amount], {})
            return w, d, r, mo, st, got, want, nreads
        for p, pst, val in _paths(rep, t_read, meth):
            B.set_path(p)
            w, d, r, mo, st, got, want, nreads = val
            inst = "EoReader.%s path[%s]" % (meth, _fmt(p))
            view = got
            if isinstance(got, tuple) and len(got) == 2 and got[0] == "decode_number":
                view = got[1]
            if isinstance(got, StrResult):
                view = got.view
            ok = st == "ok" and isinstance(view, DataView) and view.data is d
            if ok:
                start, k = want
                ok = B.is_zero(Aff.of(view.lo) - Aff.of(start)) and B.is_zero(Aff.of(view.hi) - Aff.of(start) - Aff.of(k))
                detail = "consumed data[%r:%r], model data[%r:%r+%r]" % (_n(view.lo), _n(view.hi), _n(start), _n(start), _n(k))
                rep.ob("C05.R9 result-is-a-copy", inst, view.copied, "the returned bytes %s the reader's buffer" % ("do not alias" if view.copied else "ALIAS"))
            else:
                detail = "%s %r" % (st, got)
            rep.ob("C05.R8 read-consumes-what-the-model-says", inst, ok, detail)
            if meth in TYPED:
                rep.ob("C05.R8 typed-read-decodes-its-bytes", inst, isinstance(got, tuple) and got[0] == "decode_number",
                       "returns %s" % ("decode_number(bytes read)" if isinstance(got, tuple) else repr(got)))
            check_post(rep, inst, w, roles, d, r, mo)
            check_reads(rep, inst, d, nreads)

    # ---- mode setter
    def t_setter():
        w = ReaderWorld(index)
        d, r, P, M, C, Bk = abstract_state(w, roles)
        nm = B.cur().choose("new mode")
        w.set_mode(r, nm)
        got = w.prop(r, "chunked_reading_mode")
        n = len(d.reads)
        mo = model_of(w, d, P, M, C)
        w.ev.call(Frame(w.ev, w.m, {}).getattr(mo, "set_mode"), [nm], {})
        return w, d, r, mo, nm, got, n
    for p, pst, val in _paths(rep, t_setter, "chunked_reading_mode"):
        B.set_path(p)
        w, d, r, mo, nm, got, n = val
        inst = "EoReader.chunked_reading_mode= path[%s]" % _fmt(p)
        rep.ob("C05.R10 mode-getter-returns-what-was-set", inst, got is nm, "getter returns %r after setting %r" % (got, nm))
        check_post(rep, inst, w, roles, d, r, mo)
        check_reads(rep, inst, d, n)

    # ---- next_chunk
    def t_next():
        w = ReaderWorld(index)
        d, r, P, M, C, Bk = abstract_state(w, roles)
        st, got = w.call(r, "next_chunk", [])
        n = len(d.reads)
        mo = model_of(w, d, P, M, C)
        try:
            w.ev.call(Frame(w.ev, w.m, {}).getattr(mo, "next_chunk"), [], {})
            mst = "ok"
        except Exception as e:  # PyRaise from the model
            mst = getattr(e, "exc_name", "raise")
        return w, d, r, mo, st, got, mst, M, n
    for p, pst, val in _paths(rep, t_next, "next_chunk"):
        B.set_path(p)
        w, d, r, mo, st, got, mst, M, n = val
        inst = "EoReader.next_chunk path[%s]" % _fmt(p)
        if mst != "ok":
            rep.ob("C05.R11 next_chunk-outside-chunked-mode-raises", inst, st == "raise" and got == "RuntimeError" and not M,
                   "implementation: %s %r; model raises %s" % (st, got, mst))
        else:
            rep.ob("C05.R11 next_chunk-succeeds-in-chunked-mode", inst, st == "ok", "implementation: %s %r" % (st, got))
        if st == "ok" and mst == "ok":
            check_post(rep, inst, w, roles, d, r, mo)
        check_reads(rep, inst, d, n)

    # ---- slice
    for shape in ("none", "index", "both"):
        def t_slice(shape=shape):
            w = ReaderWorld(index)
            d, r, P, M, C, Bk = abstract_state(w, roles)
            before = dict(r.d)
            idx = ln = None
            args = []
            if shape in ("index", "both"):
                idx = B.fresh("index", 0, None)
                args.append(idx)
            if shape == "both":
                ln = B.fresh("length", 0, None)
                args.append(ln)
            st, got = w.call(r, "slice", args)
            n = len(d.reads)
            mo = model_of(w, d, P, M, C)
            want = w.ev.call(Frame(w.ev, w.m, {}).getattr(mo, "slice_window"), [idx, ln], {})
            return w, d, r, mo, st, got, want, before, n
        for p, pst, val in _paths(rep, t_slice, "slice(%s)" % shape):
            B.set_path(p)
            w, d, r, mo, st, got, want, before, n = val
            inst = "EoReader.slice(%s) path[%s]" % (shape, _fmt(p))
            ok = st == "ok" and isinstance(got, Obj) and got is not r and got.cls.node is r.cls.node
            detail = "%s %r" % (st, got)
            if ok:
                nd = got.d.get(roles.data)
                b, cnt = want
                ok = isinstance(nd, DataView) and nd.data is d and B.is_zero(Aff.of(nd.lo) - Aff.of(b)) \
                    and B.is_zero(Aff.of(nd.hi) - Aff.of(b) - Aff.of(cnt))
                detail = "new reader over %s, model data[%r:%r+%r]" % (
                    "data[%r:%r]" % (_n(nd.lo), _n(nd.hi)) if isinstance(nd, DataView) else repr(nd), _n(b), _n(b), _n(cnt))
                rep.ob("C05.R12 slice-window-equals-model", inst, ok, detail)
                fresh = (got.d.get(roles.pos) == 0 and got.d.get(roles.mode) is False and got.d.get(roles.chunk) == 0
                         and got.d.get(roles.brk) == -1 and len(got.d) == 5)
                rep.ob("C05.R12 slice-is-a-fresh-reader", inst, fresh,
                       "new reader state: %r" % ({k: v for k, v in got.d.items() if k != roles.data},))
            else:
                rep.ob("C05.R12 slice-window-equals-model", inst, False, detail)
            same = all(r.d[k] is before[k] or (isinstance(r.d[k], (int, Aff)) and isinstance(before[k], (int, Aff))
                                               and not isinstance(r.d[k], bool) and B.is_zero(Aff.of(r.d[k]) - Aff.of(before[k])))
                       or r.d[k] == before[k] for k in before if k != roles.data) and set(r.d) == set(before)
            rep.ob("C05.R12 slice-leaves-the-parent-untouched", inst, same, "parent state before/after differ" if not same else "parent state unchanged")
            check_reads(rep, inst, d, n)
    extra_operations(rep, index, cls, roles, public)
    rep.floor("operation paths", 60)
    rep.floor("search loops analysed", 1)
    rep.assumptions += ["length/index arguments are non-negative (the property's quantifier)",
                        "memoryview slicing shares storage and bytearray(view) copies it (CPython)"]
    rep.trusted.append("/verif/sa/refs/reader_model.py (documented chunked-reading model)")


MODELLED = {"remaining", "position", "chunked_reading_mode", "get_byte", "get_bytes", "get_char", "get_short", "get_three", "get_int",
            "get_string", "get_fixed_string", "get_encoded_string", "get_fixed_encoded_string", "next_chunk", "slice"}


def extra_operations(rep, index, cls, roles, public):
    """Public operations the documented model does not know (added API): the model cannot say what they return, but the
    generic clauses of the property bind them too -- they do not raise, every access stays inside the data, and they
    leave the reader in a state satisfying the invariant from which every modelled operation was analysed."""
    for name in sorted(set(public) - MODELLED):
        fn = index.methods(cls, name)[0]
        if any(ast.unparse(d).endswith((".setter", ".deleter")) for d in fn.decorator_list):
            continue
        is_prop = any(ast.unparse(d) == "property" for d in fn.decorator_list)
        params = fn.args.args[1:]
        kinds = []
        for a in params:
            ann = ast.unparse(a.annotation) if a.annotation is not None else None
            kinds.append({"int": "int", "bool": "bool"}.get(ann))
        if any(k is None for k in kinds) or fn.args.kwonlyargs or fn.args.vararg or fn.args.kwarg:
            rep.undecided.append("public operation EoReader.%s takes parameters this check cannot type; it is outside the documented model "
                                 "and was not analysed" % name)
            continue

        def task(name=name, kinds=kinds, is_prop=is_prop):
            w = ReaderWorld(index)
            d, r, P, M, C, Bk = abstract_state(w, roles)
            args = [B.fresh("n", 0, None) if k == "int" else B.cur().choose("flag") for k in kinds]
            if is_prop:
                st, got = "ok", w.prop(r, name)
            else:
                st, got = w.call(r, name, args)
            return w, d, r, st, got
        for p, pst, val in _paths(rep, task, name):
            B.set_path(p)
            w, d, r, st, got = val
            inst = "EoReader.%s (not in the documented model) path[%s]" % (name, _fmt(p))
            rep.count("extra operation paths")
            rep.ob("C05.R14 operation-total", inst, st == "ok", "%s %r" % (st, got) if st != "ok" else "returns")
            if st != "ok":
                continue
            P2, M2, C2, B2 = r.d.get(roles.pos), r.d.get(roles.mode), r.d.get(roles.chunk), r.d.get(roles.brk)
            num = lambda x: isinstance(x, (int, Aff)) and not isinstance(x, bool)
            inb = num(P2) and B.prove_ge0(Aff.of(P2)) is True and B.prove_ge0(d.L - Aff.of(P2)) is True
            rep.ob("C05.R3 position-within-data", inst, inb, "position' = %r" % (_n(P2) if num(P2) else P2,))
            inc = num(C2) and B.prove_ge0(Aff.of(C2)) is True and B.prove_ge0(d.L - Aff.of(C2)) is True
            uncached = num(B2) and B.is_zero(Aff.of(B2) + 1)
            cached = num(B2) and inc and B.is_zero(Aff.of(B2) - d.ff(C2))
            inv = inc and isinstance(M2, bool) and ((uncached and not M2 and B.is_zero(Aff.of(C2))) or cached)
            rep.ob("C05.R4 break-cache-invariant", inst, bool(inv), "chunk start' = %r, cached break' = %r, mode' = %r" % (C2, B2, M2))
            extra = set(r.d) - {roles.data, roles.pos, roles.mode, roles.chunk, roles.brk}
            rep.ob("C05.R5 no-hidden-state", inst, not extra and r.d[roles.data] is d, "fields: %s" % sorted(r.d))
            check_reads(rep, inst, d)


def ownership(rep, index, m, cls, roles):
    """Engine A: which methods store the state fields, and that public getters reach the data only
    through the two private read primitives."""
    stores = {}
    for fn in index.methods(cls):
        for n in walk_no_nested(fn):
            if isinstance(n, ast.Attribute) and isinstance(n.ctx, ast.Store) and isinstance(n.value, ast.Name) and n.value.id == "self":
                stores.setdefault(n.attr, set()).add(fn.name)
    rep.count("state store sites", sum(len(v) for v in stores.values()))
    for attr in sorted(stores):
        rep.note("self.%s stored in: %s" % (attr, ", ".join(sorted(stores[attr]))))
    # only the constructor may (re)bind the data
    who = stores.get(roles.data, set())
    rep.ob("C05.R13 data-bound-once", "EoReader.%s" % roles.data, who <= {"__init__"}, "stored in %s" % sorted(who))
    rep.floor("state store sites", 8)


def _paths(rep, task, what):
    out = B.explore(task)
    good = []
    for p, st, val in out:
        B.set_path(p)
        rep.count("operation paths")
        if st != "ok":
            rep.ob("C05.R14 operation-total", "EoReader.%s path[%s]" % (what, _fmt(p)), False, "escaped exception %r" % (getattr(val, "exc_name", val),))
            continue
        w = val[0]
        rep.analysed["search loops analysed"] = rep.analysed.get("search loops analysed", 0) + w.search_loops
        good.append((p, st, val))
    return good


def _n(x):
    if isinstance(x, (int, Aff)) and not isinstance(x, bool):
        return B.norm(Aff.of(x))
    return x


def _fmt(p):
    return ",".join("%s=%s" % (k, "T" if v else "F") for k, v in p.log) or "-"
