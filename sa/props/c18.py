"""C18 -- generation is deterministic and always yields an importable package (engines A + C + D)."""
import ast
import os
import re

from ..core import AnalysisError
from ..genabs import lattice, skel
from ..genabs.taint import s_taint
from ..genabs.driver import Session, run_program
from ..genabs.shapes import Namer
from ..genabs.values import Elem, Tmpl
from ..index import walk_no_nested
from ._genprops import ob

GEN_PKG = "protocol_code_generator"
STATIC_IMPORTS = {  # names the emitted code may import from outside the generated package
    "EoWriter": "eolib.data.eo_writer", "EoReader": "eolib.data.eo_reader",
    "SerializationError": "eolib.protocol.serialization_error", "ProtocolEnumMeta": "eolib.protocol.protocol_enum_meta",
    "Packet": "eolib.protocol.net.packet",
}
STDLIB_IMPORTS = {"annotations": "__future__", "Iterable": "collections.abc", "Optional": "typing", "Union": "typing",
                  "cast": "typing", "IntEnum": "enum"}


def analyse(fam, shape, placement, outcomes):
    out = []
    from .c17 import oracle
    hard, cond = oracle(shape, placement)
    if not hard and not cond:
        rej = [o for o in outcomes if o.rejected]
        out.append(("C18.V1 generator-succeeds-on-every-valid-shape", "%r in %s" % (shape.key, placement), not rej,
                    "well-formed by the grammar's rules, accepted on all %d path(s)" % len(outcomes) if not rej else
                    "well-formed by the grammar's rules but rejected: %s [path %s]" % (rej[0].exc[:100], rej[0].path()),
                    "C18.V1 | %s | %s" % (shape.key[0], "" if not rej else rej[0].exc[:60])))
    for o in outcomes:
        if o.rejected:
            continue
        sk = o.value
        bad = skel.s_parse(sk)
        out.append(ob("C18.S1 emitted-class-compiles", shape, placement, o, "T", not bad, bad[0][2] if bad else "parses; indentation balanced", "C18"))
        if bad:
            continue
        du = skel.s_defuse(sk, extra_known=("E", "SF", "SB", "SU", "SC", "SP", "SX", "SW", "SK"))
        du = [x for x in du if "__init__" not in x[1]]  # constructor value flow is C01's; here: names the file must import
        out.append(ob("C18.S2 every-name-used-is-imported-or-bound", shape, placement, o, "T", not du,
                      "; ".join("%s: %s" % (w, d) for _, w, d in du[:2]) or "every free name of every emitted method is bound or imported by the same file", "C18"))
        imp_bad = []
        for name, path in sk.imports:
            if name in STDLIB_IMPORTS:
                if path != STDLIB_IMPORTS[name]:
                    imp_bad.append("%s imported from %s" % (name, path))
            elif name in STATIC_IMPORTS:
                if path != STATIC_IMPORTS[name]:
                    imp_bad.append("%s imported from %s (defined in %s)" % (name, path, STATIC_IMPORTS[name]))
            elif name in ("E", "SF", "SB", "SU", "SC", "SP", "SX", "SW", "SK"):
                want = "eolib.protocol._generated." + _snake(name)
                if path != want:
                    imp_bad.append("%s imported from %s, its module is %s" % (name, path, want))
            else:
                imp_bad.append("unknown import %s from %s" % (name, path))
        out.append(ob("C18.S3 import-targets-exist", shape, placement, o, "T", not imp_bad, "; ".join(imp_bad[:3]) or "%d import(s) resolve" % len(sk.imports), "C18"))
        taint = s_taint(sk)
        out.append(ob("C18.S4 spec-text-inside-string-literals-is-escaped", shape, placement, o, "T", not taint,
                      "; ".join(taint[:2]) or "no free spec text stands unescaped inside a string literal or docstring", "C18"))
    return out


def _snake(name):
    out = ""
    for i, c in enumerate(name):
        if i > 0 and c.isupper() and ((i + 1 < len(name) and not name[i + 1].isupper()) or name[i - 1].islower()):
            out += "_"
        out += c.lower()
    return out


# ---------------------------------------------------------------- whole-program runs
def program_tree(edited=False):
    """A valid multi-file spec tree: every documented directory, cross-file references in every direction that
    is not into a packet directory from outside it (F9, see C20), packets in both packet directories, comments.
    `edited`: the same tree after an edit that keeps every name -- other ordinals, wider enums, one more field in
    every struct and in a packet."""
    nm = Namer()
    ordinal = (lambda t: str(int(t) + 5)) if edited else (lambda t: t)
    width = "short" if edited else "char"

    def f(n, t, **k):
        return Elem("field", dict({"name": n, "type": t}, **k))
    fam = Elem("enum", {"name": "PacketFamily", "type": "char"}, [Elem("value", {"name": "Fam"}, text=ordinal("1")), Elem("value", {"name": "Other"}, text=ordinal("2"))])
    act = Elem("enum", {"name": "PacketAction", "type": "char"}, [Elem("value", {"name": "Act"}, text=ordinal("1"))])
    names = {d: (nm.name("Enum" + t), nm.name("Struct" + t)) for d, t in
             (("", "Root"), ("map", "Map"), ("net", "Net"), ("net/client", "Client"), ("net/server", "Server"), ("pub", "Pub"), ("pub/server", "PubServer"))}
    files = {}
    dirs = list(names)
    for d in dirs:
        en, sn = names[d]
        body = [f(nm.name("own"), en)]
        for d2 in dirs:
            if d2 == d or (d2 in ("net/client", "net/server")):
                continue
            body.append(f(nm.name("x"), names[d2][0]))
        if d == "map":
            # the same enum with an underlying-type override here and plain everywhere else: which use is resolved first
            # depends on the enumeration order, and neither may leak into the other
            body.insert(0, f("overridden_width", Tmpl([names["pub"][0], ":short"])))
        if edited:
            body.append(f("added_by_the_edit", "short"))
        kids = [Elem("enum", {"name": en, "type": width}, [Elem("value", {"name": nm.name("V")}, text=ordinal("0"))], comment=nm.text("c")),
                Elem("struct", {"name": sn}, body, comment=nm.text("c"))]
        if d == "net":
            kids = [fam, act] + kids
        if d in ("net/client", "net/server"):
            kids.append(Elem("packet", {"family": "Fam", "action": "Act"}, [f(nm.name("p"), names[""][1]), f(nm.name("q"), names[d][1], optional="true")]))
            kids.append(Elem("packet", {"family": "Other", "action": "Act"}, [f("added_by_the_edit", "three")] if edited else []))
        files[d] = Elem("protocol", {}, kids)
    return files


def _state_between_runs(rep, session, dirs):
    """P10 / P11 (see program())."""
    from ..genabs import absint as _gabs

    def edited_tree():
        return program_tree(True)
    fresh = [o for o in run_program(session, edited_tree, order=dirs, runs=1, fresh_output=True)]
    both = [o for o in run_program(session, [program_tree, edited_tree], order=dirs, runs=2, fresh_output=True)]
    rep.count("edited-specification evaluations", len(fresh) + len(both))
    rejected = [o for o in fresh if o.rejected]
    for o in rejected:
        rep.ob("C18.P1 generator-succeeds-on-a-valid-tree", "generate() over the edited 7-directory tree, path[%s]" % o.path(), False,
               "rejected with %s at %s" % (o.exc, o.exc_site), key="C18.P1 | edited tree")
    if rejected:
        return
    if len(fresh) != 1:
        # several paths (symbolic names forking somewhere): which path of the two-run evaluation corresponds to which fresh
        # path is not worked out -- undecided unless something else is wrong with this tree
        _gabs.TRUNCATED.append("C18.P10/P11: the edited reference tree is generated on %d paths; the second run is not compared" % len(fresh))
        return
    want = {f["path"]: f["content"] for f in fresh[0].value[0].files}
    for o in both:
        inst = "generate() twice on one instance, the 7-directory tree edited in between, path[%s]" % o.path()
        if o.rejected:
            rep.ob("C18.P10 no-state-carried-from-one-run's-XML-to-the-next", inst, False,
                   "the second run is rejected with %s at %s although a fresh generator accepts the edited tree" % (o.exc, o.exc_site))
            continue
        got = {f["path"]: f["content"] for f in o.value[1].files}
        rep.ob("C18.P10 no-state-carried-from-one-run's-XML-to-the-next", inst, got == want,
               _diff_files(want, got) or "%d files, identical to a fresh generator's output for the edited tree" % len(want))
    rep.floor("edited-specification evaluations", 2)
    # P11: ... nor from a run that failed: the first run meets an ill-formed tree (a struct field of an undeclared type:
    # the error comes during emission, after indexing has filled the generator's tables), the caller catches the
    # error, repairs the specification and runs the same generator again
    def broken_tree():
        files = program_tree()
        files["pub"].children.append(Elem("struct", {"name": "BrokenByTheEdit"}, [Elem("field", {"name": "f", "type": "NoSuchType"})]))
        return files
    after = run_program(session, [broken_tree, edited_tree], order=dirs, runs=2, fresh_output=True, keep_going=True)
    rep.count("failed-run evaluations", len(after))
    n_failed_first = 0
    for o in after:
        inst = "generate() on an ill-formed tree (caught), then on the repaired tree with the same instance, path[%s]" % o.path()
        if o.rejected:
            rep.ob("C18.P11 no-state-carried-over-from-a-failed-run", inst, False,
                   "the second run is rejected with %s at %s although a fresh generator accepts the repaired tree" % (o.exc, o.exc_site))
            continue
        first, second = o.value
        if not (isinstance(first, tuple) and first[0] == "raised"):
            raise AnalysisError("C18.P11: the ill-formed reference tree is accepted (C17's business); no failed run to continue from")
        n_failed_first += 1
        if isinstance(second, tuple):
            rep.ob("C18.P11 no-state-carried-over-from-a-failed-run", inst, False,
                   "the second run raises %s although a fresh generator accepts the repaired tree" % _exc_text(second[1]))
            continue
        got = {f["path"]: f["content"] for f in second.files}
        rep.ob("C18.P11 no-state-carried-over-from-a-failed-run", inst, got == want,
               _diff_files(want, got) or "%d files, identical to a fresh generator's output for the repaired tree" % len(want))
    rep.floor("failed-run evaluations", 1)


def program(rep, index):
    session = Session(index)
    dirs = ["", "map", "net", "net/client", "net/server", "pub", "pub/server"]
    orders = {"as enumerated": dirs, "reversed": list(reversed(dirs)), "rotated": dirs[3:] + dirs[:3],
              "leaves first": ["pub/server", "net/server", "net/client", "pub", "net", "map", ""],
              "map first": ["map", "pub", "", "net", "net/client", "net/server", "pub/server"]}
    baselines = {}
    for oname, order in orders.items():
        # the output directory is pre-populated with unknown contents in the first evaluation (every path of it
        # explored); the other enumeration orders write into a fresh directory
        outs = run_program(session, program_tree, order=order, runs=2, fresh_output=(oname != "as enumerated"))
        rep.count("program evaluations", len(outs))
        # P8: the paths of one evaluation differ only in what the output directory held beforehand
        groups = {}
        for o in outs:
            if not o.rejected:
                # like with like: the same symbol assumptions, whatever the output directory held
                a = _assumptions(o.path())
                if any("hold exactly what this run writes=T" in x for x in a):
                    continue  # whatever is not rewritten on this path is already what a fresh run would write
                k = tuple(x for x in a if "the output directory already holds" not in x and "the files already there" not in x)
                groups.setdefault(k, []).append(o)
        for done in groups.values():
            if len(done) < 2:
                continue
            ref = {f["path"]: f["content"] for f in done[0].value[0].files}
            for o in done[1:]:
                mine = {f["path"]: f["content"] for f in o.value[0].files}
                missing = sorted(set(ref) ^ set(mine))
                changed = sorted(p_ for p_ in set(ref) & set(mine) if ref[p_] != mine[p_])
                rep.ob("C18.P8 output-independent-of-the-output-directory's-earlier-contents",
                       "generate() over the 7-directory tree, directories enumerated %s, path[%s] vs path[%s]" % (oname, o.path(), done[0].path()),
                       not missing and not changed,
                       ("written on one path only: %s; " % missing[:3] if missing else "") + ("different text: %s" % changed[:3] if changed else "")
                       or "same files, same text", key="C18.P8 | order: %s" % oname)
        for o in outs:
            inst = "generate() over the 7-directory tree, directories enumerated %s, path[%s]" % (oname, o.path())
            if o.rejected:
                rep.ob("C18.P1 generator-succeeds-on-a-valid-tree", inst, False, "rejected with %s at %s" % (o.exc, o.exc_site),
                       key="C18.P1 | order: %s" % oname)
                continue
            rep.ob("C18.P1 generator-succeeds-on-a-valid-tree", inst, True, "two consecutive runs completed")
            r1, r2 = o.value
            nd = r1.nondeterminism + r2.nondeterminism
            # a consulted source matters when it reaches the output: as a value inside a written path or text, as a test
            # the run forked on, or as an order (a sort over a set that ties)
            reaching = [w for w in nd if w.startswith("sorted()") or w in o.path()
                        or any(w in h.get("tag", "") for r_ in (r1, r2) for h in r_.holes.values())]
            if nd and not reaching:
                rep.note("C18.P2: %s consulted on %s but neither a written path or text nor a branch depends on it" % (sorted(set(nd)), inst))
            rep.ob("C18.P2 no-nondeterministic-source-reaches-the-output", inst, not reaching,
                   "reaches the written files: %s" % reaching if reaching else "no hash/id/random/time/environment value in any written path or text, no branch on one")
            f1 = {f["path"]: f["content"] for f in r1.files}
            f2 = {f["path"]: f["content"] for f in r2.files}
            rep.ob("C18.P3 second-run-on-the-same-instance-is-identical", inst, f1 == f2 and len(r1.files) == len(r2.files),
                   _diff_files(f1, f2) or "%d files, byte-identical templates on both runs" % len(f1))
            dup = [p for p in f1 if [x["path"] for x in r1.files].count(p) > 1]
            rep.ob("C18.P4 each-file-written-once", inst, not dup, "written more than once: %s" % dup if dup else "%d distinct paths" % len(f1))
            utf8 = ("utf-8", "utf8", "UTF-8")
            bytes_ok = bool(r1.encodings) and all(e in utf8 for e in r1.encodings)
            bad_sink = [(x["path"], x["mode"], x["kw"]) for x in r1.files
                        if not ((x["mode"] == "w" and x["kw"].get("encoding") in utf8) or (x["mode"] == "wb" and bytes_ok))]
            rep.ob("C18.P5 files-opened-truncating-with-explicit-encoding", inst, not bad_sink,
                   "sinks: %s" % bad_sink[:2] if bad_sink else "every sink is open(path, 'w', encoding='utf-8') (or 'wb' of text encoded as utf-8)")
            bad_mk = [p for p, e in r1.makedirs if e is not True]
            rep.ob("C18.P6 directories-created-with-exist_ok", inst, not bad_mk and len(r1.makedirs) >= len(f1),
                   "makedirs without exist_ok=True: %s" % bad_mk[:2] if bad_mk else "%d makedirs(exist_ok=True)" % len(r1.makedirs))
            baseline = baselines.get(_assumptions(o.path()))
            if baseline is None:
                baselines[_assumptions(o.path())] = (oname, f1)
            else:
                rep.ob("C18.P7 output-independent-of-directory-enumeration-order", inst, f1 == baseline[1],
                       _diff_files(baseline[1], f1) or "identical to the output for order '%s'" % baseline[0])
            package_rules(rep, inst, r1, f1)
    rep.floor("program evaluations", 4)
    # P10: nothing learnt from one run's XML survives into the next: the specification is edited between two runs of one
    # generator instance (every name kept; ordinals, enum widths and field lists changed) and the second run must write
    # what a fresh generator writes for the edited tree
    def edited_tree():
        return program_tree(True)
    _state_between_runs(rep, session, dirs)
    # P9: a set has no order -- the same tree evaluated with every set iterated in insertion order, reversed, rotated
    witness = None
    base = None
    for mode in ("insertion", "reversed", "rotated"):
        for o in run_program(session, program_tree, order=dirs, runs=1, set_order=mode, fresh_output=True):
            if o.rejected:
                continue
            files = {f["path"]: f["content"] for f in o.value[0].files}
            if base is None:
                base = files
                continue
            d = _diff_files(base, files)
            inst = "generate() over the 7-directory tree, sets iterated in %s order, path[%s]" % (mode, o.path())
            rep.ob("C18.P9 output-independent-of-set-iteration-order", inst, not d, d or "identical to the output with sets iterated in insertion order",
                   key="C18.P9 | %s" % mode)
            if d and witness is None:
                witness = "with every set iterated in %s order: %s" % (mode, d)
    return witness


def _assumptions(path):
    """The set of symbol assumptions of a path (order-independent), so that outputs are compared like with like."""
    return tuple(sorted(set(path.split(","))))


def _diff_files(a, b):
    if a == b:
        return ""
    only_a = sorted(set(a) - set(b))
    only_b = sorted(set(b) - set(a))
    if only_a or only_b:
        return "files only in one output: %s / %s" % (only_a[:3], only_b[:3])
    for p in sorted(a):
        if a[p] != b[p]:
            la, lb = a[p].splitlines(), b[p].splitlines()
            for i, (x, y) in enumerate(zip(la, lb)):
                if x != y:
                    return "%s line %d: %r vs %r" % (p, i + 1, x[:80], y[:80])
            return "%s: different length" % p
    return ""


def package_facts(files):
    """Facts about the files one run writes: {rel path: text}, parse errors, directories without __init__, imports that
    do not resolve, modules their package's __init__ does not star-import."""
    mods = {}
    for path, content in files.items():
        rel = path[len("/out/"):] if path.startswith("/out/") else path
        rel = "/".join(c for c in rel.split("/") if c not in ("", "."))
        mods[rel] = content
    trees, syntax = {}, []
    for rel, content in mods.items():
        try:
            trees[rel] = ast.parse(content)
        except SyntaxError as e:
            syntax.append((rel, "%s at line %s" % (e.msg, e.lineno)))
    dirs = sorted({rel.rsplit("/", 1)[0] if "/" in rel else "" for rel in mods})
    missing_init = [d for d in dirs if (d + "/__init__.py").lstrip("/") not in mods]
    unresolved = []
    not_exported = []
    for rel, tree in trees.items():
        pkg_parts = ["eolib", "protocol", "_generated"] + [c for c in rel.split("/")[:-1]]
        is_init = rel.endswith("__init__.py")
        stars = set()
        for st in tree.body:
            if isinstance(st, ast.ImportFrom):
                if st.level:
                    base = pkg_parts[: len(pkg_parts) - (st.level - 1)]
                    target = base + (st.module.split(".") if st.module else [])
                else:
                    target = st.module.split(".")
                tname = ".".join(target)
                if tname.startswith("eolib.protocol._generated"):
                    sub = "/".join(target[3:])
                    if (sub + ".py") not in mods and (sub + "/__init__.py").lstrip("/") not in mods:
                        unresolved.append("%s: from %s import ... (no such generated module)" % (rel, tname))
                    elif is_init and any(a.name == "*" for a in st.names):
                        stars.add(sub + ".py")
                    else:
                        # the imported name must be the class that module defines
                        mt = trees.get(sub + ".py")
                        if mt is not None:
                            defined = {c.name for c in mt.body if isinstance(c, ast.ClassDef)}
                            for a in st.names:
                                if a.name != "*" and a.name not in defined:
                                    unresolved.append("%s: %s is not defined by %s" % (rel, a.name, tname))
                elif tname.startswith("eolib."):
                    for a in st.names:
                        if STATIC_IMPORTS.get(a.name) != tname:
                            unresolved.append("%s: from %s import %s (not where the library defines it)" % (rel, tname, a.name))
                else:
                    for a in st.names:
                        if STDLIB_IMPORTS.get(a.name) != tname:
                            unresolved.append("%s: unexpected import from %s import %s" % (rel, tname, a.name))
        if is_init:
            d = rel.rsplit("/", 1)[0] if "/" in rel else ""
            siblings = {m for m in mods if m != rel and (m.rsplit("/", 1)[0] if "/" in m else "") == d and not m.endswith("__init__.py")}
            for s in sorted(siblings - stars):
                not_exported.append("%s does not star-import %s" % (rel, s))
    return {"mods": mods, "trees": trees, "syntax": syntax, "dirs": dirs, "missing_init": missing_init,
            "unresolved": unresolved, "not_exported": not_exported}


def package_rules(rep, inst, r, files):
    """The written files form a complete importable package."""
    f = package_facts(files)
    mods, trees = f["mods"], f["trees"]
    for rel, why in f["syntax"]:
        rep.ob("C18.Q1 every-written-file-compiles", "%s file %s" % (inst, rel), False, why, key="C18.Q1 | file does not compile")
    rep.ob("C18.Q1 every-written-file-compiles", inst, len(trees) == len(mods), "%d of %d files parse" % (len(trees), len(mods)))
    missing_init = f["missing_init"]
    rep.ob("C18.Q2 every-directory-is-a-package", inst, not missing_init, "no __init__.py in: %s" % missing_init if missing_init else "%d packages" % len(f["dirs"]))
    unresolved, not_exported = f["unresolved"], f["not_exported"]
    rep.ob("C18.Q3 every-import-resolves", inst, not unresolved, "; ".join(unresolved[:3]) or "all relative/absolute imports resolve to written or library modules")
    rep.ob("C18.Q4 package-init-exports-every-module", inst, not not_exported, "; ".join(not_exported[:3]) or "every type module is star-imported by its package")


# ---------------------------------------------------------------- static rules on the generator
NONDET_CALLS = {"hash", "id"}
NONDET_MODULES = {"random", "time", "uuid", "datetime", "secrets", "getpass", "socket", "platform"}


def static_rules(rep, index, set_order_witness=None):
    mods = [m for m in index.all_module_names(GEN_PKG)] + ["protocol"]
    rep.count("generator modules scanned", len(mods))
    set_typed_attrs, set_typed_names = set(), {}
    for name in mods:
        m = index.module(name)
        # hash() inside a __hash__ method is the standard idiom (the value only places the object in a set/dict; what
        # the order of such a container may feed is the business of D2 and of the program runs)
        in_dunder_hash = {id(x) for f in ast.walk(m.tree) if isinstance(f, ast.FunctionDef) and f.name == "__hash__" for x in ast.walk(f)}
        for n in ast.walk(m.tree):
            if isinstance(n, (ast.Import, ast.ImportFrom)):
                targets = [a.name for a in n.names] if isinstance(n, ast.Import) else [n.module or ""]
                for t in targets:
                    if t.split(".")[0] in NONDET_MODULES:
                        rep.ob("C18.D1 no-nondeterministic-module", "%s imports %s" % (name, t), False, "output may depend on %s" % t, loc=index.loc(m, n))
            if isinstance(n, ast.Call) and isinstance(n.func, ast.Name) and n.func.id in NONDET_CALLS and not (n.func.id == "hash" and id(n) in in_dunder_hash):
                rep.ob("C18.D1 no-nondeterministic-call", "%s calls %s()" % (name, n.func.id), False, "hash()/id() vary between runs", loc=index.loc(m, n))
            if isinstance(n, ast.Attribute) and ast.unparse(n) in ("os.environ", "os.getpid", "os.getcwd", "os.urandom", "sys.argv"):
                if name != "protocol":
                    rep.ob("C18.D1 no-environment-read", "%s reads %s" % (name, ast.unparse(n)), False, "output may depend on the environment", loc=index.loc(m, n))
            # set-typed bindings
            if isinstance(n, ast.Assign) and _is_set_expr(n.value):
                for t in n.targets:
                    if isinstance(t, ast.Attribute):
                        set_typed_attrs.add(t.attr)
                    elif isinstance(t, ast.Name):
                        set_typed_names.setdefault(name, set()).add(t.id)
    d1 = [o for o in rep.obs if not o.ok and o.rule.startswith("C18.D1 ")]
    if d1 and not any((not o.ok) and o.rule.startswith("C18.P2 ") for o in rep.obs):
        # who-may-call is a sufficient condition only: the source must reach a written file to matter
        del rep.obs[:]
        raise AnalysisError("C18.D1: %s (%s) but in no evaluation of the reference tree does such a value reach a written path or text "
                            "-- undecided" % (d1[0].instance, d1[0].loc))
    rep.ob("C18.D1 nondeterminism-scan", "%d generator modules" % len(mods), True, "no import of random/time/uuid/..., no hash()/id(), no environment read")
    # iterations over set-typed values must end in an order-insensitive sink or go through sorted()
    n_iter = 0
    for name in mods:
        m = index.module(name)
        local_sets = set_typed_names.get(name, set())
        for fn in [x for x in ast.walk(m.tree) if isinstance(x, (ast.FunctionDef, ast.Lambda))]:
            for n in walk_no_nested(fn):
                iters = []
                if isinstance(n, ast.For):
                    iters.append((n.iter, n, "for"))
                elif isinstance(n, (ast.ListComp, ast.GeneratorExp, ast.SetComp, ast.DictComp)):
                    for g in n.generators:
                        iters.append((g.iter, n, type(n).__name__))
                for it, node, kind in iters:
                    if not _is_set_valued(it, set_typed_attrs, local_sets):
                        continue
                    if isinstance(it, ast.Name):
                        # flow-sensitive: the definition of the name that reaches this loop
                        defs = [a for a in walk_no_nested(fn) if isinstance(a, ast.Assign) and a.lineno < node.lineno
                                and any(isinstance(t, ast.Name) and t.id == it.id for t in a.targets)]
                        if defs and not _is_set_expr(max(defs, key=lambda a: a.lineno).value):
                            continue
                    n_iter += 1
                    ok, why = _order_insensitive(node, kind, fn)
                    if not ok:
                        # the sink rule is a sufficient condition only: an alarm needs the order to reach the output
                        if set_order_witness is None:
                            raise AnalysisError("C18.D2: the iteration over a set at %s.%s line %d feeds a sink this rule does not recognise (%s), and "
                                                "permuting the iteration order of every set does not change the output for the reference tree -- "
                                                "undecided" % (name, getattr(fn, "name", "lambda"), node.lineno, why))
                        why = "%s; witness: %s" % (why, set_order_witness)
                    rep.ob("C18.D2 set-iteration-feeds-order-insensitive-sink", "%s.%s line %d" % (name, getattr(fn, "name", "lambda"), node.lineno), ok,
                           why, loc=index.loc(m, node), key="C18.D2 | %s.%s" % (name, getattr(fn, "name", "lambda")))
    rep.count("set iterations", n_iter)
    rep.floor("set iterations", 1)
    # generate(): indexing strictly before emission, accumulators cleared on every exit
    m, fn, cls = index.function(GEN_PKG + ".generate.code_generator.ProtocolCodeGenerator.generate")
    tries = [st for st in fn.body if isinstance(st, ast.Try)]
    init = next(iter(index.methods(cls, "__init__")))
    accs = []
    for st in ast.walk(init):
        if isinstance(st, ast.Assign) and len(st.targets) == 1 and isinstance(st.targets[0], ast.Attribute) and isinstance(st.value, (ast.List, ast.Dict, ast.Set, ast.Call)):
            if not (isinstance(st.value, ast.Call) and ast.unparse(st.value.func) in ("input_root.as_posix",)):
                accs.append(st.targets[0].attr)
    cleared = set()
    ok_try = len(tries) == 1 and tries[0].finalbody
    if ok_try:
        for n in ast.walk(ast.Module(body=tries[0].finalbody, type_ignores=[])):
            if isinstance(n, ast.Call) and isinstance(n.func, ast.Attribute) and n.func.attr == "clear" and isinstance(n.func.value, ast.Attribute):
                cleared.add(n.func.value.attr)
    if not (ok_try and set(accs) <= cleared):
        # the idiom (one try whose finally clears every accumulator) is a sufficient condition only; what it stands for
        # is decided by P10 / P11 (the second run on one instance, after an edit and after a failed run, equals a fresh run)
        rep.note("C18.D3: generate() does not clear %s in one finally block; state carried between runs is decided by P10/P11" % sorted(set(accs) - cleared))
    else:
        rep.ob("C18.D3 state-cleared-on-every-exit", "ProtocolCodeGenerator.generate", True,
               "accumulators %s, cleared in finally: %s" % (sorted(accs), sorted(cleared)), loc=index.loc(m, fn))
    # resolution of types is reachable from the emission phase only
    reach = _reachable(index, GEN_PKG + ".generate.code_generator", "ProtocolCodeGenerator", "_index_protocol_files")
    resolves = sorted(x for x in reach if x.endswith(("get_type", "_create_type", "_create_custom_type", "_create_struct_type", "_create_enum_type")))
    if resolves and not any((not o.ok) and o.rule.startswith(("C18.P1 ", "C18.P7 ")) for o in rep.obs):
        # reachability is a sufficient condition only: resolving while indexing matters when a type can be asked for before
        # the file declaring it was walked, and then some enumeration order of the reference tree fails or differs
        raise AnalysisError("C18.D4: type resolution is reachable while indexing (%s) but every enumeration order of the reference "
                            "tree succeeds with identical output -- undecided" % resolves[:3])
    rep.ob("C18.D4 indexing-never-resolves-types", "call graph from _index_protocol_files", not resolves,
           "type resolution reachable while indexing (depends on file enumeration order): %s" % resolves if resolves else
           "%d functions reachable, none resolves a type" % len(reach), loc=index.loc(m, fn))
    rep.count("functions reachable from indexing", len(reach))
    rep.floor("functions reachable from indexing", 3)


def _is_set_expr(v):
    return (isinstance(v, ast.Call) and isinstance(v.func, ast.Name) and v.func.id in ("set", "frozenset")) or isinstance(v, (ast.Set, ast.SetComp))


def _is_set_valued(it, attrs, names):
    if isinstance(it, ast.Attribute) and it.attr in attrs:
        return True
    if isinstance(it, ast.Name) and it.id in names:
        return True
    return _is_set_expr(it)


def _order_insensitive(node, kind, fn):
    if kind in ("SetComp", "DictComp"):
        return True, "builds a set/dict: order-insensitive"
    if kind == "for":
        # every statement of the body is X.add(...) on a set, or X.append(...) on a local list that is sorted before
        # anything else looks at it; `if` statements may select between such statements
        appended = set()

        def body_ok(stmts):
            for st in stmts:
                if isinstance(st, ast.If):
                    r = body_ok(st.body) or body_ok(st.orelse)
                    if r:
                        return r
                    continue
                if isinstance(st, ast.Expr) and isinstance(st.value, ast.Call) and isinstance(st.value.func, ast.Attribute):
                    f = st.value.func
                    if f.attr in ("add", "discard", "update"):
                        continue
                    if f.attr == "append" and isinstance(f.value, ast.Name):
                        appended.add(f.value.id)
                        continue
                if isinstance(st, (ast.Pass, ast.Continue)):
                    continue
                return "loop over a set whose body is order-sensitive: %s" % ast.unparse(st)[:60]
            return None
        bad = body_ok(node.body)
        if bad:
            return False, bad
        for name in sorted(appended):
            # the first statement after the loop that mentions the list must sort it in place (or rebind it to sorted(...))
            after = [st for st in ast.walk(fn) if isinstance(st, ast.stmt) and st.lineno > (node.end_lineno or node.lineno)
                     and any(isinstance(x, ast.Name) and x.id == name for x in ast.walk(st))]
            after.sort(key=lambda st: (st.lineno, st.col_offset))
            first = after[0] if after else None
            sorts = (isinstance(first, ast.Expr) and isinstance(first.value, ast.Call) and isinstance(first.value.func, ast.Attribute)
                     and first.value.func.attr == "sort" and isinstance(first.value.func.value, ast.Name) and first.value.func.value.id == name) \
                or (isinstance(first, ast.Assign) and isinstance(first.value, ast.Call) and isinstance(first.value.func, ast.Name)
                    and first.value.func.id == "sorted" and first.value.args and isinstance(first.value.args[0], ast.Name) and first.value.args[0].id == name
                    and len(first.targets) == 1 and isinstance(first.targets[0], ast.Name) and first.targets[0].id == name)
            if not sorts:
                return False, "elements of a set are appended to %s in iteration order and %s is used without being sorted first" % (name, name)
        return True, "loop body only adds to sets" + (" / appends to %s, sorted before use" % ", ".join(sorted(appended)) if appended else "")
    # list comprehension / generator over a set: fine only as the direct argument of sorted()/set()/frozenset()/any()/all()/sum()/len()/min()/max()
    INSENSITIVE = ("sorted", "set", "frozenset", "any", "all", "sum", "len", "min", "max")
    for p in ast.walk(fn):
        if isinstance(p, ast.Call) and isinstance(p.func, ast.Name) and p.func.id in INSENSITIVE and p.args and p.args[0] is node:
            return True, "consumed by %s()" % p.func.id
    # bound to a local name whose every use is the argument of an order-insensitive consumer
    for st in ast.walk(fn):
        if isinstance(st, ast.Assign) and st.value is node and len(st.targets) == 1 and isinstance(st.targets[0], ast.Name):
            name = st.targets[0].id
            stores = [n for n in ast.walk(fn) if isinstance(n, ast.Name) and n.id == name and isinstance(n.ctx, ast.Store)]
            uses = [n for n in ast.walk(fn) if isinstance(n, ast.Name) and n.id == name and isinstance(n.ctx, ast.Load)]
            consumers = {id(p.args[0]) for p in ast.walk(fn) if isinstance(p, ast.Call) and isinstance(p.func, ast.Name) and p.func.id in INSENSITIVE and p.args}
            if len(stores) == 1 and uses and all(id(u) in consumers for u in uses):
                return True, "bound to %s, which is only ever passed to sorted()/set()/len()/..." % name
    return False, "sequence built from a set in iteration order"


def _reachable(index, modname, clsname, start):
    """Names of functions/methods reachable from a method, resolving self.m(), self._attr.m() by name across the
    generator package (conservative: by method name)."""
    defs = {}
    for name in index.all_module_names(GEN_PKG):
        m = index.module(name)
        for n in ast.walk(m.tree):
            if isinstance(n, ast.FunctionDef):
                defs.setdefault(n.name, []).append((name, n))
    seen = set()
    todo = [start]
    while todo:
        f = todo.pop()
        if f in seen:
            continue
        seen.add(f)
        for mod, fn in defs.get(f, []):
            for c in ast.walk(fn):
                if isinstance(c, ast.Call):
                    nm = c.func.attr if isinstance(c.func, ast.Attribute) else c.func.id if isinstance(c.func, ast.Name) else None
                    if nm in defs and nm not in seen:
                        todo.append(nm)
    return seen


def _exc_text(exc):
    try:
        return "%s(%s)" % (getattr(getattr(exc, "cls", None), "name", type(exc).__name__), ", ".join(str(a)[:80] for a in getattr(exc, "args", [])))
    except Exception:
        return repr(exc)[:120]


def entry_point(rep, index):
    """E1: the generator only adds and overwrites files, so the tree left behind is a function of the XML alone only if
    the output directory is emptied first: in protocol.py (the command every build hook and script runs) every path of
    the main block that reaches the generating call has passed through the call that removes the generated directory
    (a must-pass-through walk over the main block; callees resolved to the module's own functions)."""
    path = os.path.join(index.repo, "protocol.py")
    if not os.path.isfile(path):
        raise AnalysisError("anchor vanished: protocol.py")
    tree = ast.parse(open(path, encoding="utf-8").read())
    fns = {f.name: f for f in tree.body if isinstance(f, ast.FunctionDef)}

    def local_value(fn, e):
        """The expression a name stands for inside fn (assigned exactly once), normalised."""
        if isinstance(e, ast.Name):
            stores = [st for st in ast.walk(fn) if isinstance(st, ast.Assign) and len(st.targets) == 1
                      and isinstance(st.targets[0], ast.Name) and st.targets[0].id == e.id]
            if len(stores) == 1:
                return ast.dump(stores[0].value)
        return ast.dump(e)

    def calls(fn):
        return [c for c in ast.walk(fn) if isinstance(c, ast.Call)]

    generating, cleaning, gen_line, clean_line = {}, {}, {}, {}
    for name, fn in fns.items():
        for c in calls(fn):
            if isinstance(c.func, ast.Attribute) and c.func.attr == "generate" and c.args:
                generating[name] = local_value(fn, c.args[0])
                gen_line[name] = c.lineno
        # rmtree of a directory, unconditionally or only guarded by that directory's existence
        for st in fn.body:
            inner = [st]
            if isinstance(st, ast.If) and not st.orelse and any(isinstance(x, ast.Attribute) and x.attr in ("exists", "isdir", "is_dir") for x in ast.walk(st.test)):
                inner = st.body
            elif isinstance(st, ast.With):
                inner = st.body
            for x in inner:
                if isinstance(x, ast.Expr) and isinstance(x.value, ast.Call):
                    f = x.value.func
                    if (isinstance(f, ast.Attribute) and f.attr == "rmtree" or isinstance(f, ast.Name) and f.id == "rmtree") and x.value.args:
                        cleaning[name] = local_value(fn, x.value.args[0])
                        clean_line[name] = x.lineno
    # a function that unconditionally calls a cleaning function cleans too (to a fixed point)
    changed = True
    while changed:
        changed = False
        for name, fn in fns.items():
            if name in cleaning:
                continue
            for st in fn.body:
                if isinstance(st, ast.Expr) and isinstance(st.value, ast.Call) and isinstance(st.value.func, ast.Name) and st.value.func.id in cleaning:
                    cleaning[name], clean_line[name] = cleaning[st.value.func.id], st.lineno
                    changed = True
                    break
    for name, fn in fns.items():
        # ... and one that calls a generating function generates
        for c in calls(fn):
            if isinstance(c.func, ast.Name) and c.func.id in generating and name not in generating and c.func.id != name:
                generating[name], gen_line[name] = generating[c.func.id], c.lineno
    main = next((st for st in tree.body if isinstance(st, ast.If) and isinstance(st.test, ast.Compare)
                 and isinstance(st.test.left, ast.Name) and st.test.left.id == "__name__"), None)
    if main is None or not generating:
        raise AnalysisError("anchor vanished: protocol.py has no main block calling a function that runs ProtocolCodeGenerator.generate")
    sites = []

    def callee(st):
        if isinstance(st, ast.Expr) and isinstance(st.value, ast.Call) and isinstance(st.value.func, ast.Name):
            return st.value.func.id
        return None

    def walk(body, cleaned, trail):
        """cleaned: the set of directories certainly removed on every path reaching this point."""
        for st in body:
            c = callee(st)
            if c in cleaning and (c not in generating or clean_line[c] < gen_line[c]):
                cleaned = cleaned | {cleaning[c]}
            if c in generating:
                sites.append((st.lineno, generating[c] in cleaned, trail))
            if isinstance(st, ast.If):
                a = walk(st.body, cleaned, trail + ["%s=T@%d" % (ast.unparse(st.test), st.lineno)])
                b = walk(st.orelse, cleaned, trail + ["%s=F@%d" % (ast.unparse(st.test), st.lineno)])
                cleaned = a & b
            elif isinstance(st, (ast.For, ast.While)):
                walk(st.body, cleaned, trail + ["loop@%d" % st.lineno])
            elif isinstance(st, ast.With):
                cleaned = walk(st.body, cleaned, trail)
            elif isinstance(st, ast.Try):
                walk(st.body, cleaned, trail + ["try@%d" % st.lineno])
                for h in st.handlers:
                    walk(h.body, cleaned, trail + ["except@%d" % h.lineno])
                cleaned = walk(st.finalbody, cleaned, trail)
            elif c is None and any(isinstance(x, ast.Call) and isinstance(x.func, ast.Name) and x.func.id in generating for x in ast.walk(st)):
                raise AnalysisError("C18.E1: the generating function is called inside %s at protocol.py:%d" % (type(st).__name__, st.lineno))
        return cleaned
    walk(main.body, frozenset(), [])
    for ln, ok, trail in sites:
        rep.ob("C18.E1 entry-point-empties-the-output-directory-before-generating", "protocol.py:%d main block path[%s]" % (ln, ",".join(trail) or "-"), ok,
               "the generated directory is removed on every path to this call" if ok else
               "this call is reached without removing the generated directory first: files of types since renamed or removed stay behind")
    rep.count("generating calls in the entry point", len(sites))
    rep.floor("generating calls in the entry point", 1)


def run(rep, index):
    rep.level = "other"
    rep.explanation = ("Determinism: static rules on the generator (no nondeterministic source, set iterations end in order-insensitive "
                       "sinks or sorted(), state cleared in finally, indexing never resolves types) and an abstract whole-program run of "
                       "generate() over a 7-directory spec tree under four directory enumeration orders and two consecutive runs on one "
                       "instance: every run succeeds and all outputs are identical templates; sinks are truncating with explicit encoding. "
                       "Importability: every emitted class of the shape lattice compiles and binds/imports every name it uses; in the "
                       "whole-program output every file compiles, every directory is a package, every import resolves to a written or "
                       "library module, every package __init__ star-imports its modules (the static packages are C20's). NOT decided: "
                       "success beyond the analysed shapes/sequences; directory layouts outside the documented seven.")
    results, stats = lattice.sweep(index.repo, analyse, rep.tier)
    for rule, inst, ok, detail, key in results:
        rep.ob(rule, inst, ok, detail, key=key)
    for k, v in stats.items():
        rep.count("lattice " + k, v)
    rep.floor("lattice accepted", 300)
    witness = program(rep, index)
    static_rules(rep, index, witness)
    entry_point(rep, index)
    rep.undecided.append("generator success for valid specs beyond the shape lattice and its sequence bound; non-documented directory layouts")
