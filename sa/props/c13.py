"""C13 -- packet sequencer yields start + (n mod 10) under any update history (engines A + B, fully)."""
import ast

from .. import affine as B
from ..affine import Aff
from ..core import AnalysisError
from ..index import walk_no_nested
from ..numeval import Frame, NumEval, Obj

MOD = "eolib.packet.packet_sequencer"
CLS = "PacketSequencer"


class StartStub:
    """An arbitrary SequenceStart: `.value` is a fixed but unknown integer; nothing else is offered."""

    def __init__(self, name):
        self.v = B.fresh(name, None, None)
        self.reads = 0
        self.kinds = {}

    def abstract_isinstance(self, cls):
        # an arbitrary SequenceStart may or may not be of any given subclass: both are explored
        name = getattr(cls, "name", repr(cls))
        if name not in self.kinds:
            self.kinds[name] = B.cur().choose("isinstance(start, %s)" % name)
        return self.kinds[name]

    def getattr(self, fr, attr, node):
        if attr == "value":
            self.reads += 1
            return self.v
        raise AnalysisError("sequencer reads SequenceStart.%s (only .value is part of the interface)" % attr)


def state_fields(rep, index, m, cls):
    """Engine A ownership: which methods store which self attribute."""
    stores = {}
    for fn in index.methods(cls):
        for n in walk_no_nested(fn):
            if isinstance(n, ast.Attribute) and isinstance(n.ctx, ast.Store) and isinstance(n.value, ast.Name) and n.value.id == "self":
                stores.setdefault(n.attr, []).append(fn.name)
    return stores


def run(rep, index):
    rep.level = "proof"
    rep.explanation = ("Per-operation refinement: each public method of PacketSequencer is interpreted by engine B on a "
                       "symbolic state (arbitrary start value, counter in 0..9) and compared with the reference transition "
                       "system in sa/refs/sequencer_model.py; the counter range is shown inductive; engine A shows that no "
                       "other code writes the state. Agreement per operation + inductive invariant = agreement on every history.")
    m, cls = index.klass(MOD + "." + CLS)
    public = [f.name for f in index.methods(cls) if not f.name.startswith("_")]
    rep.count("public operations", len(public))
    from .c12 import HOOKS as _random_hooks
    ev = NumEval(index, module_hooks=_random_hooks)  # a start class may consult the random source (an arbitrary member of the range)

    # ---- discover the state: run __init__ on a stub start
    def init_task():
        s = StartStub("start0")
        o = ev.instantiate(MOD + "." + CLS, [s])
        return s, o
    inits = B.explore(init_task)
    if len(inits) != 1 or inits[0][1] != "ok":
        rep.ob("C13.R1 init", CLS + ".__init__", False, "constructor forks or raises")
        return
    B.set_path(inits[0][0])
    s0, o0 = inits[0][2]
    start_f = [k for k, v in o0.d.items() if v is s0]
    cnt_f = [k for k, v in o0.d.items() if isinstance(v, (int, Aff)) and not isinstance(v, bool)]
    ok = len(start_f) == 1 and len(cnt_f) == 1 and len(o0.d) == 2
    if not ok:
        # another state representation than (start object, one integer): the refinement cannot be set up.  A violation
        # needs a history on which the interpreted class departs from start + (n mod 10); otherwise undecided.
        w = _find_history(ev, index, m, cls, public)
        if w is None:
            raise AnalysisError("C13: the sequencer's state after construction is %r, not (start object, one integer); no coupling "
                                "with the model is known and no examined history departs from it -- undecided" % (sorted(o0.d),))
        rep.ob("C13.R1 init", CLS + ".__init__", False, "state after construction: %r; witness history: %s" % (sorted(o0.d), w))
        start_values(rep, index, ev)
        return
    rep.ob("C13.R1 init", CLS + ".__init__", True, "state after construction: %r" % (o0.d,))
    SF, CF = start_f[0], cnt_f[0]
    c0 = B.norm(Aff.of(o0.d[CF]))
    rep.ob("C13.R1 init-counter-zero", CLS + ".__init__", c0.is_const() and c0.c == 0, "initial counter = %r" % c0)

    # ---- ownership (engine A): only these methods may store the two fields
    stores = state_fields(rep, index, m, cls)
    rep.count("state stores", sum(len(v) for v in stores.values()))
    rep.floor("state stores", 2)
    for attr, fns in sorted(stores.items()):
        rep.note("stores to self.%s in: %s" % (attr, ", ".join(fns)))
    # any store to those attribute names elsewhere in the package
    for modname in index.all_module_names("eolib"):
        if modname.startswith("eolib.protocol._generated"):
            continue
        mm = index.module(modname)
        for n in ast.walk(mm.tree):
            if isinstance(n, ast.Attribute) and isinstance(n.ctx, ast.Store) and n.attr in (SF, CF):
                inside = modname == MOD
                own = isinstance(n.value, ast.Name) and n.value.id == "self"
                if not (inside and own):
                    # same attribute name on another class's self is harmless; on a foreign object it is not
                    if not own:
                        rep.ob("C13.R2 ownership", "%s store to .%s" % (modname, n.attr), False,
                               "state of a sequencer written from outside its class", loc=index.loc(mm, n))

    # ---- per-operation refinement, under a coupling between the integer field and the model's counter
    # (a) the field IS the counter and stays in 0..9;  (b) the field counts freely and the counter is field mod 10.
    # A refinement proof needs one coupling under which every obligation holds.
    chosen, outcomes = None, {}
    for coupling in ("identity", "mod10"):
        obs, npaths = _refine(ev, index, m, cls, public, SF, CF, coupling)
        outcomes[coupling] = (obs, npaths)
        if all(ok for _, _, ok, _ in obs):
            chosen = coupling
            break
    if chosen is None:
        # no coupling works: a violation is reported only with a history on which the interpreted class really
        # departs from start + (n mod 10); otherwise the representation is one this check does not understand
        w = _find_history(ev, index, m, cls, public)
        if w is None:
            bad = [o for o in outcomes["identity"][0] if not o[2]][0]
            raise AnalysisError("C13: no coupling between the state and the model discharges every obligation (%s %s: %s) "
                                "but no examined history departs from the model -- undecided" % (bad[0], bad[1], bad[3]))
        best = min(outcomes, key=lambda k: sum(1 for o in outcomes[k][0] if not o[2]))
        obs, npaths = outcomes[best]
        rep.note("closest coupling relation: %s" % best)
        rep.count("operation paths", npaths)
        for rule, inst, ok, detail in obs:
            rep.ob(rule, inst, ok, detail if ok else "%s; witness history: %s" % (detail, w))
    else:
        obs, npaths = outcomes[chosen]
        rep.count("operation paths", npaths)
        rep.note("coupling relation: %s" % ("model counter = self.%s, 0 <= self.%s <= 9" % (CF, CF) if chosen == "identity"
                                            else "model counter = self.%s mod 10, self.%s >= 0" % (CF, CF)))
        for rule, inst, ok, detail in obs:
            rep.ob(rule, inst, ok, detail)
    start_values(rep, index, ev)
    rep.floor("public operations", 2)
    rep.floor("operation paths", 2)
    rep.assumptions.append("SequenceStart.value is a pure read (checked for the classes in sequence_start.py by C12)")
    rep.trusted.append("/verif/sa/refs/sequencer_model.py")


def start_values(rep, index, ev):
    """"For arbitrary start values": every concrete start class of sequence_start.py reports, as `.value`, the integer
    it was constructed with (any sign, any size) -- otherwise the value in force is not the one the caller supplied."""
    sm = index.module("eolib.packet.sequence_start")
    n = 0
    for cname, cdef in sorted(sm.classes.items()):
        init = next((f for f in cdef.body if isinstance(f, ast.FunctionDef) and f.name == "__init__"), None)
        if init is None:
            continue
        params = [a.arg for a in init.args.args][1:]
        if not params or params[0] != "value":
            continue

        def task(cname=cname, params=params):
            v = B.fresh("v", None, None)
            args = [v] + [B.fresh(p_, None, None) for p_ in params[1:]]
            o = ev.instantiate("eolib.packet.sequence_start." + cname, args)
            got = Frame(ev, sm, {}).getattr(o, "value")
            return v, got
        for p, st, val in B.explore(task):
            B.set_path(p)
            n += 1
            inst = "%s(value, ...) path[%s]" % (cname, _fmt(p))
            if st != "ok":
                rep.ob("C13.R7 start-reports-the-value-it-was-built-with", inst, False, "raises %s for some integer" % val.exc_name)
                continue
            v, got = val
            ok = isinstance(got, (int, Aff)) and not isinstance(got, bool) and B.is_zero(Aff.of(got) - v)
            rep.ob("C13.R7 start-reports-the-value-it-was-built-with", inst, ok,
                   ".value - value = %r" % (B.norm(Aff.of(got) - v) if isinstance(got, (int, Aff)) else got,))
    rep.count("start constructions", n)
    rep.floor("start constructions", 3)
    # the peer that receives a start as wire components derives the value by the protocol's formula, for every pair of
    # integers (not only the pairs generate() produces -- those are C12's): otherwise the two peers disagree about the
    # value in force.  Reference: eo-protocol, "sequence" (INIT: seq1*7 + seq2 - 13; PING: seq1 - seq2; ACCOUNT: value).
    formulas = {"from_init_values": lambda a: a[0].scale(7) + a[1] - 13, "from_ping_values": lambda a: a[0] - a[1],
                "from_value": lambda a: a[0]}
    k = 0
    for cname, cdef in sorted(sm.classes.items()):
        for f in cdef.body:
            if not (isinstance(f, ast.FunctionDef) and f.name in formulas):
                continue
            params = [a.arg for a in f.args.args]

            def task(cname=cname, f=f, params=params):
                args = [B.fresh(p_, None, None) for p_ in params]
                o = ev.call_qual("eolib.packet.sequence_start.%s.%s" % (cname, f.name), list(args))
                return args, Frame(ev, sm, {}).getattr(o, "value")
            for p, st, val in B.explore(task):
                B.set_path(p)
                k += 1
                inst = "%s.%s path[%s]" % (cname, f.name, _fmt(p))
                if st != "ok":
                    rep.ob("C13.R8 start-derived-by-the-protocol-formula", inst, False, "raises %s for some integers" % val.exc_name)
                    continue
                args, got = val
                want = formulas[f.name](args)
                ok = isinstance(got, (int, Aff)) and not isinstance(got, bool) and B.is_zero(Aff.of(got) - want)
                rep.ob("C13.R8 start-derived-by-the-protocol-formula", inst, ok,
                       ".value = %r, protocol formula %r" % (B.norm(Aff.of(got)) if isinstance(got, (int, Aff)) else got, B.norm(want)))
    rep.count("start derivations", k)
    rep.floor("start derivations", 3)


def _refine(ev, index, m, cls, public, SF, CF, coupling):
    obs = []
    npaths = 0
    for name in public:
        fn = index.methods(cls, name)[0]
        params = [a.arg for a in fn.args.args][1:]

        def task(name=name, params=params):
            s = StartStub("start")
            o = Obj(ev.lookup_global(m, CLS))
            if coupling == "identity":
                f = B.fresh("counter", 0, 9)
                c = f
            else:
                f = B.fresh("count", 0, None)
                c = B.divmod_const(f, 10)[1]
            o.d[SF] = s
            o.d[CF] = f
            args = [StartStub("new_start") for _ in params]
            res = ev.call(Frame(ev, m, {}).getattr(o, name), args, {})
            ref_res = ev.call_qual("refs.sequencer_model.next_result", [s.v, c])
            ref_cnt = ev.call_qual("refs.sequencer_model.next_counter", [c])
            f1 = o.d.get(CF)
            c1 = None
            if isinstance(f1, (int, Aff)) and not isinstance(f1, bool):
                c1 = Aff.of(f1) if coupling == "identity" else B.divmod_const(Aff.of(f1), 10)[1]
            return s, c, f, o, args, res, ref_res, ref_cnt, c1

        paths = B.explore(task)
        npaths += len(paths)
        for p, st, val in paths:
            B.set_path(p)
            inst = "%s.%s path[%s]" % (CLS, name, _fmt(p))
            if st != "ok":
                obs.append(("C13.R3 total", inst, False, "raises %s" % val.exc_name))
                continue
            s, c, f, o, args, res, ref_res, ref_cnt, c1 = val
            extra = set(o.d) - {SF, CF}
            obs.append(("C13.R3 no-hidden-state", inst, not extra, "fields after the call: %s" % sorted(o.d)))
            cnt = o.d.get(CF)
            if c1 is None:
                obs.append(("C13.R4 counter-invariant", inst, False, "counter became %r" % (cnt,)))
                continue
            lo, hi = B.bounds(Aff.of(cnt))
            if coupling == "identity":
                obs.append(("C13.R4 counter-invariant", inst, lo is not None and hi is not None and lo >= 0 and hi <= 9,
                            "counter' in [%s,%s] given counter in [0,9]" % (lo, hi)))
            else:
                obs.append(("C13.R4 counter-invariant", inst, lo is not None and lo >= 0, "count' >= %s given count >= 0" % lo))
            if res is not None:
                d = B.norm(Aff.of(res) - Aff.of(ref_res)) if isinstance(res, (int, Aff)) and not isinstance(res, bool) else None
                obs.append(("C13.R5 next-result", inst, d is not None and B.is_zero(d), "result - (start + counter) = %r" % (d,)))
                d2 = B.norm(c1 - Aff.of(ref_cnt))
                obs.append(("C13.R5 next-counter", inst, B.is_zero(d2), "counter' - (counter+1) mod 10 = %r" % d2))
                obs.append(("C13.R5 next-keeps-start", inst, o.d[SF] is s, "start after next: %r" % (o.d[SF],)))
            else:
                d2 = B.norm(c1 - c)
                obs.append(("C13.R6 update-keeps-counter", inst, B.is_zero(d2), "counter' - counter = %r" % d2))
                obs.append(("C13.R6 update-sets-start", inst, len(args) == 1 and o.d[SF] is args[0],
                            "start after update is the argument: %s" % (len(args) == 1 and o.d[SF] is args[0])))
    return obs, npaths


def _find_history(ev, index, m, cls, public):
    """Interpret bounded histories (requests with one update inserted anywhere) from a freshly constructed object and
    compare each result with start_in_force + (n mod 10).  -> description of the first departure, or None."""
    nexts = [n for n in public if len(index.methods(cls, n)[0].args.args) == 1]
    sets = [n for n in public if len(index.methods(cls, n)[0].args.args) == 2]
    if len(nexts) != 1 or len(sets) != 1:
        return None
    nx, st = nexts[0], sets[0]
    for k in [None] + list(range(0, 13)):
        N = 1200 if k is None else 24

        def task(k=k, N=N):
            s = StartStub("start0")
            o = ev.instantiate(MOD + "." + CLS, [s])
            cur = s
            for n in range(N):
                if k is not None and n == k:
                    cur = StartStub("start1")
                    ev.call(Frame(ev, m, {}).getattr(o, st), [cur], {})
                res = ev.call(Frame(ev, m, {}).getattr(o, nx), [], {})
                if not isinstance(res, (int, Aff)) or isinstance(res, bool):
                    return "request %d returns %r" % (n, res)
                d = B.norm(Aff.of(res) - cur.v - (n % 10))
                if not (d.is_const() and d.c == 0):
                    return "request %d returns start%+d instead of start%+d" % (n, (d.c + n % 10), n % 10) if d.is_const() \
                        else "request %d returns a value that differs from start+%d by %r" % (n, n % 10, d)
            return None
        hist = "%d requests" % N if k is None else "%d requests with an update before request %d" % (N, k)
        for p, status, val in B.explore(task):
            if status != "ok":
                return "%s: raises %s" % (hist, val.exc_name)
            if val is not None:
                return "%s: %s" % (hist, val)
    return None


def _fmt(p):
    return ",".join("%s=%s" % (k, "T" if v else "F") for k, v in p.log) or "-"
