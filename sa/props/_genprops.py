"""Shared per-outcome analysis for the generator properties (C01, C02, C03, C16, C18)."""
import re

from ..genabs import objrules, refcheck, skel
from ..genabs.refcheck import (canon_read, canon_write, first_diff, flatten_scopes, mirror, only_guards, reference_for,
                               strip_guards, views)

_REF_CACHE = {}


def gen(detail):
    """Drop shape-specific identifiers from a detail string so that it can serve as a stable finding key."""
    d = re.sub(r"h_int_\w+", "<int>", detail)
    d = re.sub(r"h_\w+", "<name>", d)
    d = re.sub(r"\[\d+\]", "[]", d)
    d = re.sub(r"line \d+", "line N", d)
    return d[:110]


def each_class(shape, placement, outcome):
    """Yields (class name, ClassView, reference Scope, ast.ClassDef) for an accepted outcome, or raises ValueError
    with a description when the reference is undefined / class sets differ."""
    sk = outcome.value
    key = (shape.key, placement)
    if key not in _REF_CACHE:
        try:
            _REF_CACHE[key] = flatten_scopes(reference_for(shape, placement))
        except Exception as e:
            _REF_CACHE[key] = e
    ref = _REF_CACHE[key]
    if isinstance(ref, Exception):
        raise ValueError("the reference semantics are undefined for this accepted spec (%s: %s)" % (type(ref).__name__, ref))
    vs = views(sk)
    if set(vs) != set(ref):
        raise ValueError("emitted classes %s, the spec declares %s" % (sorted(vs), sorted(ref)))
    classes = dict(skel.classes_of(sk.tree()))
    for cn in vs:
        yield cn, vs[cn], ref[cn], classes[cn]


def ob(rule, shape, placement, o, cn, ok, detail, prop):
    inst = "%r in %s path[%s] class %s" % (shape.key, placement, o.path(), cn)
    rid = rule.split(" ")[0]
    codes = sorted(set(re.findall(r"\[([a-z][a-z0-9-]+)\]", detail)))
    what = "+".join(codes) if codes else gen(re.sub(r"^T(\.\w+)*\.", "", detail))
    # a coded finding names the construct itself; otherwise the instruction family narrows the key
    key = ("%s | %s" % (rid, what)) if (codes and not ok) else "%s | %s | %s" % (rid, shape.key[0], what if not ok else "")
    return (rule, inst, ok, detail, key)
