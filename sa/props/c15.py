"""C15 -- (de)serialization leaves reader and writer modes as it found them (engine C, fully)."""
from ..core import AnalysisError
from ..genabs import lattice, skel
from ._genprops import canon_write, each_class, first_diff, strip_guards
from ..genabs.refcheck import canon_read


def analyse(fam, shape, placement, outcomes):
    out = []
    for o in outcomes:
        if o.rejected:
            continue
        inst = "%r in %s path[%s]" % (shape.key, placement, o.path())
        sk = o.value
        bad = skel.s_parse(sk)
        if bad:
            # not this property's business (C18 reports it); without a parse there is nothing to check
            out.append(("C15.S0 skeleton-parses", inst, False, bad[0][2], "C15.S0 | %s" % (shape.key[0],)))
            continue
        f = skel.s_mode(sk)
        out.append(("C15.S1 mode-saved-and-restored-on-every-exit", inst, not f,
                    "; ".join("%s: %s" % (w, d) for _, w, d in f[:3]) or "entry mode saved before the body, restored in finally, never reassigned; "
                    "inner writes are literal and bracketed", "C15.S1 | %s | %s" % (shape.key[0], f[0][2][:60] if f else "")))
        # the "consequently" clause: the mode is switched on and off around exactly what the spec puts in a chunked section
        try:
            for cn, view, scope, cls in each_class(shape, placement, o):
                if view.err:
                    continue  # C02's business
                for side, emitted, want in (("serialize", _brackets(strip_guards(canon_write(view.w.tokens)), "san"), _brackets(strip_guards(scope.write), "san")),
                                            ("deserialize", _brackets(canon_read(view.r.tokens), "mode"), _brackets(scope.read, "mode"))):
                    d = first_diff(emitted, want)
                    out.append(("C15.S2 mode-is-on-exactly-inside-chunked-sections", "%s class %s %s" % (inst, cn, side), d is None,
                                d or "the mode switches sit where the spec's chunked sections begin and end",
                                "C15.S2 | %s | %s" % (shape.key[0], side if d else "")))
        except ValueError:
            pass  # reference undefined for this cell: reported by C02.S0
    return out


def _brackets(tokens, kind):
    """The nesting structure of a grammar with everything but the mode switches reduced to '.' (runs collapsed)."""
    out = []
    for t in tokens:
        if t[0] == kind:
            out.append((kind, t[1]))
            continue
        sub = None
        if t[0] in ("loop", "for"):
            sub = ("loop", _brackets(t[2], kind))
        elif t[0] in ("opt",):
            sub = ("opt", _brackets(t[2], kind))
        elif t[0] in ("if_remaining", "while_remaining", "if_not_last", "if_not_first"):
            sub = (t[0], _brackets(t[1], kind))
        elif t[0] == "dummy_guard":
            sub = ("dummy", _brackets(t[1], kind))
        elif t[0] == "switch":
            sub = ("switch", [_brackets(b, kind) for c, b in t[2]])
        if sub is not None and _has(sub, kind):
            out.append(sub)
        elif not out or out[-1] != ".":
            out.append(".")
    return out


def _has(x, kind):
    if isinstance(x, tuple) and x and x[0] == kind:
        return True
    if isinstance(x, (list, tuple)):
        return any(_has(y, kind) for y in x)
    return False


def run(rep, index):
    rep.level = "proof"
    rep.explanation = ("The code generator is interpreted from its syntax trees over the lattice of instruction shapes in every placement "
                       "(abstract interpretation with symbolic spec text); each accepted path yields the skeleton of the emitted class and "
                       "every emitted serialize/deserialize (nested case classes included) must satisfy the S-mode typestate rule: the "
                       "entry mode is read once before anything else, the body runs inside try/finally whose last mode write restores the "
                       "saved value, the saved variable is never reassigned, and inner writes are literal True/False brackets. By "
                       "induction over nesting a nested call returns or raises with the mode it was entered with.")
    results, stats = lattice.sweep(index.repo, analyse, rep.tier)
    for rule, inst, ok, detail, key in results:
        rep.ob(rule, inst, ok, detail, key=key)
    for k, v in stats.items():
        rep.count("lattice " + k, v)
    rep.floor("lattice accepted", 300)
    rep.assumptions += ["objects communicate with each other only through serialize/deserialize calls (induction over nesting)",
                        "EoReader/EoWriter mode setters cannot raise (C05/C09)"]
