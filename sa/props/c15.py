"""C15 -- (de)serialization leaves reader and writer modes as it found them (engine C, fully)."""
from ..core import AnalysisError
from ..genabs import lattice, skel


def analyse(fam, shape, placement, outcomes):
    out = []
    for o in outcomes:
        if o.rejected:
            continue
        inst = "%r in %s path[%s]" % (shape.key, placement, o.path())
        sk = o.value
        bad = skel.s_parse(sk)
        if bad:
            # not this property's business (C18 reports it); without a parse there is nothing to check
            out.append(("C15.S0 skeleton-parses", inst, False, bad[0][2], "C15.S0 | %s" % (shape.key[0],)))
            continue
        f = skel.s_mode(sk)
        out.append(("C15.S1 mode-saved-and-restored-on-every-exit", inst, not f,
                    "; ".join("%s: %s" % (w, d) for _, w, d in f[:3]) or "entry mode saved before the body, restored in finally, never reassigned; "
                    "inner writes are literal and bracketed", "C15.S1 | %s | %s" % (shape.key[0], f[0][2][:60] if f else "")))
    return out


def run(rep, index):
    rep.level = "proof"
    rep.explanation = ("The code generator is interpreted from its syntax trees over the lattice of instruction shapes in every placement "
                       "(abstract interpretation with symbolic spec text); each accepted path yields the skeleton of the emitted class and "
                       "every emitted serialize/deserialize (nested case classes included) must satisfy the S-mode typestate rule: the "
                       "entry mode is read once before anything else, the body runs inside try/finally whose last mode write restores the "
                       "saved value, the saved variable is never reassigned, and inner writes are literal True/False brackets. By "
                       "induction over nesting a nested call returns or raises with the mode it was entered with.")
    results, stats = lattice.sweep(index.repo, analyse, rep.tier)
    for rule, inst, ok, detail, key in results:
        rep.ob(rule, inst, ok, detail, key=key)
    for k, v in stats.items():
        rep.count("lattice " + k, v)
    rep.floor("lattice accepted", 300)
    rep.assumptions += ["objects communicate with each other only through serialize/deserialize calls (induction over nesting)",
                        "EoReader/EoWriter mode setters cannot raise (C05/C09)"]
