"""C04 -- EoWriter output read back by EoReader returns the values written (engines A + B).

Compositional argument, every link decided on all paths:
  W  what each add_* appends               (abstract writer, as in C09)
  R  what each get_* consumes and returns  (abstract reader, as in C05)
  M  the reader's pipeline is the mirror image of the writer's under the inverse table
     (encode_string<->decode_string, 0xFF padding<->cut at the first 0xFF, cp1252 encode<->decode,
      k-byte prefix of encode_number <-> decode_number of k bytes), same codec on both sides
  N  decode_number(encode_number(n)[:k]) == n   (C07)   and   decode_string(encode_string(x)) == x except 0x7E (C08)
Not decided: the cp1252 image claim itself (codec library semantics).
"""
from .. import affine as B
from ..affine import Aff
from ..core import AnalysisError
from ..numeval import Frame
from ..reader_model import DataView, ReaderWorld, StrResult
from ..segbuf import AbsStr, seg_len
from ..writer_model import NUMERIC, STRINGS, WriterWorld
from . import c05

PAIRS = {  # writer method -> reader method (documented API pairs)
    "add_byte": "get_byte", "add_bytes": "get_bytes",
    "add_char": "get_char", "add_short": "get_short", "add_three": "get_three", "add_int": "get_int",
    "add_string": "get_string", "add_encoded_string": "get_encoded_string",
    "add_fixed_string": "get_fixed_string", "add_fixed_encoded_string": "get_fixed_encoded_string",
}
CODEC = ("windows-1252", "replace")


def run(rep, index):
    rep.level = "other"
    rep.explanation = ("Writer and reader are interpreted by engine B (abstract writer over segmented buffers, abstract reader "
                       "over abstract data). For every API pair the writer's pipeline (codec, sanitise, pad, encode, width) and the "
                       "reader's pipeline (width, decode, un-pad, codec) are extracted on every path and must be mirror images; "
                       "with C07/C08 (codec round trips) and C05 (exact consumption) this composes to 'reads return what was "
                       "written'. The cp1252 image claim is library semantics and is NOT decided.")
    wm, wcls = index.klass("eolib.data.eo_writer.EoWriter")
    rm, rcls = index.klass("eolib.data.eo_reader.EoReader")
    wnames = {f.name for f in index.methods(wcls)}
    rnames = {f.name for f in index.methods(rcls)}
    for a, g in PAIRS.items():
        rep.count("api pairs")
        rep.ob("C04.P0 api-pair-exists", "%s <-> %s" % (a, g), a in wnames and g in rnames, "writer has %s: %s, reader has %s: %s" % (a, a in wnames, g, g in rnames))
    rep.floor("api pairs", 10)
    roles = c05.discover_roles(rep, index)
    writer_pipes = writer_side(rep, index)
    reader_side(rep, index, roles, writer_pipes)
    numeric_mirror(rep, index, roles)
    from . import c06, c09
    c06.include(rep, "C04.W3 add_K-appends-the-K-byte-prefix-of-the-encoding", "C09", lambda sub: c09.numeric(sub, index),
                keep=lambda o: o.rule.startswith(("C09.N5", "C09.N6")))
    codec_links(rep, index)
    write_histories(rep, index)
    rep.undecided.append("strings come back as their cp1252 image with '?' for unencodable characters: semantics of the codec "
                         "library (str.encode/bytes.decode with 'replace'), trusted, not analysed")
    rep.assumptions += ["composition over call sequences uses C05 (each read consumes exactly min(n, remaining) bytes) and C09 "
                        "(each write appends exactly its declared bytes)", "C07 and C08 hold (checked separately)"]


# ---------------------------------------------------------------- writer pipelines
def writer_side(rep, index):
    """(method, padded) -> pipeline as a tuple of stage names, read off the abstract writer on every path."""
    pipes = {}
    for meth, (encoded, fixed) in STRINGS.items():
        def task(meth=meth, fixed=fixed):
            ww = WriterWorld(index)
            w, data = ww.new_writer(mode=False)
            s = AbsStr()
            args = [s]
            N = padded = None
            if fixed:
                N = B.fresh("length", 0, None)
                padded = B.cur().choose("padded")
                args += [N, padded]
            st, val = ww.call(w, meth, args)
            return ww, w, s, N, padded, st
        for p, pst, val in B.explore(task):
            B.set_path(p)
            rep.count("writer string paths")
            if pst != "ok":
                continue
            ww, w, s, N, padded, st = val
            if st != "ok":
                continue
            data = ww.data_of(w)
            app = data.appended()
            stages = []
            for buf in ww.ev.encoded:
                stages.append("ansi%r" % (buf.codec,))
            has_pad = any(sg[0] == "const" for sg in app)
            strictly_shorter = fixed and padded and B.prove_ge0(N - s.S - 1) is True
            if has_pad:
                ok = all(sg[1] == 0xFF for sg in app if sg[0] == "const") and app[0][0] == "abs"
                stages.append("pad-0xFF-after-string" if ok else "pad-OTHER")
            enc = [c for c in ww.codec_calls if c[0] == "encode_string"]
            if enc:
                # padding (if any) must already be part of what is encoded
                whole = enc[0][2] is not None and B.is_zero(Aff.of(enc[0][2]) - (N if fixed else s.S))
                stages.append("encode_string" if whole else "encode_string-before-padding")
            key = (meth, bool(padded) and has_pad)
            inst = "EoWriter.%s path[%s]" % (meth, _fmt(p))
            prev = pipes.get(key)
            if prev is not None and prev != tuple(stages):
                rep.ob("C04.W1 writer-pipeline-is-path-independent", inst, False, "pipelines %r vs %r" % (prev, tuple(stages)))
            pipes.setdefault(key, tuple(stages))
            if strictly_shorter:
                rep.ob("C04.W2 short-padded-string-is-padded", inst, has_pad, "len(string) < length but no padding was appended")
    rep.floor("writer string paths", 12)
    for k, v in sorted(pipes.items()):
        rep.note("writer pipeline %s%s: %s" % (k[0], " [padded]" if k[1] else "", " -> ".join(v)))
    return pipes


def mirror_of(stages):
    """Expected reader stages for a writer pipeline, under the inverse table."""
    out = []
    for s in reversed(stages):
        if s.startswith("ansi"):
            out.append("decode" + s[4:])
        elif s == "pad-0xFF-after-string":
            out.append("cut-at-first-0xFF")
        elif s == "encode_string":
            out.append("decode_string")
        else:
            out.append("<no inverse for %s>" % s)
    return out


# ---------------------------------------------------------------- reader pipelines
def reader_side(rep, index, roles, writer_pipes):
    for wmeth, (encoded, fixed) in STRINGS.items():
        rmeth = PAIRS[wmeth]

        def task(rmeth=rmeth, fixed=fixed):
            w = ReaderWorld(index)
            d, r, P, M, C, Bk = c05.abstract_state(w, roles, mode=False)
            args = []
            padded = None
            if fixed:
                args.append(B.fresh("n", 0, None))
                padded = B.cur().choose("padded")
                args.append(padded)
            st, got = w.call(r, rmeth, args)
            found = None
            if st == "ok" and isinstance(got, StrResult):
                f = getattr(got.view, "found", None)
                if f is not None:
                    # classify the search outcome on this path: found (>= 0) or not found (== -1)
                    found = B.decide_ge0(f[1], "padding byte found")
            return w, st, got, padded, found

        for p, pst, val in B.explore(task):
            B.set_path(p)
            rep.count("reader string paths")
            inst = "EoReader.%s path[%s]" % (rmeth, _fmt(p))
            if pst != "ok":
                rep.ob("C04.R0 total", inst, False, "escaped %r" % (val,))
                continue
            w, st, got, padded, found = val
            if st != "ok" or not isinstance(got, StrResult):
                rep.ob("C04.R1 returns-decoded-string", inst, False, "%s %r" % (st, got))
                continue
            ops = []
            for o in got.view.ops:
                if o[0] == "find":
                    if o[1] != 0xFF or o[2] != "find":
                        ops.append("search-%s(%r)" % (o[2], o[1]))
                    continue
                if o[0] == "cut-at-first":
                    ops.append("cut-at-first-0xFF" if o[1] == 0xFF and o[2] == "find" else "cut-at-first(%r,%s)" % (o[1], o[2]))
                elif o[0] == "cut":
                    ops.append("cut[%r:%r]" % (o[1], o[2]))
                else:
                    ops.append(o[0] if len(o) == 1 else "%s%r" % (o[0], o[1:]))
            ops.append("decode%r" % (got.codec,))
            want = mirror_of(writer_pipes.get((wmeth, bool(padded)), ()))
            if padded and found is False:
                # nothing to strip on this path: the string filled the field
                want = [x for x in want if x != "cut-at-first-0xFF"]
            if padded and found is None:
                rep.ob("C04.M1 reader-mirrors-writer", inst, False, "padded read never searches for the padding byte")
                continue
            rep.ob("C04.M1 reader-mirrors-writer", inst, ops == want,
                   "reader: %s ; mirror of writer %s%s: %s" % (" -> ".join(ops), wmeth, " [padded]" if padded else "", " -> ".join(want)))
            rep.ob("C04.M2 same-codec-both-sides", inst, got.codec == CODEC and ("ansi%r" % (CODEC,)) in writer_pipes.get((wmeth, False), ()),
                   "reader %r, writer stages %r" % (got.codec, writer_pipes.get((wmeth, False))))
    rep.floor("reader string paths", 12)


def numeric_mirror(rep, index, roles):
    """add_K appends the K-byte prefix of encode_number (C09.N6 proves it); get_K must decode exactly K bytes."""
    for wmeth, (width, limit) in NUMERIC.items():
        rmeth = PAIRS[wmeth]
        if rmeth == "get_byte":
            continue

        def task(rmeth=rmeth):
            w = ReaderWorld(index)
            d, r, P, M, C, Bk = c05.abstract_state(w, roles, mode=False)
            # enough data for the whole field
            need = B.fresh("need", 0, None)
            st, got = w.call(r, rmeth, [])
            return w, d, P, st, got

        for p, pst, val in B.explore(task):
            B.set_path(p)
            rep.count("reader numeric paths")
            inst = "EoReader.%s path[%s]" % (rmeth, _fmt(p))
            if pst != "ok":
                rep.ob("C04.R0 total", inst, False, "escaped %r" % (val,))
                continue
            w, d, P, st, got = val
            ok = st == "ok" and isinstance(got, tuple) and got[0] == "decode_number" and isinstance(got[1], DataView)
            if ok:
                v = got[1]
                avail = B.prove_ge0(d.L - P - width) is True
                if avail:
                    rep.ob("C04.M3 get_K-decodes-the-K-bytes-add_K-wrote", inst,
                           B.is_zero(Aff.of(v.lo) - P) and B.is_zero(Aff.of(v.hi) - P - width) and not v.ops,
                           "decodes data[%r:%r], %s wrote %d byte(s) at the position" % (B.norm(Aff.of(v.lo)), B.norm(Aff.of(v.hi)), wmeth, width))
            else:
                rep.ob("C04.M3 get_K-decodes-the-K-bytes-add_K-wrote", inst, False, "%s %r" % (st, got))
    rep.floor("reader numeric paths", 8)


def write_histories(rep, index):
    """Sequences of writes: the same string written again on one writer is again its exact image
    (the two-call history analysis of C09, reported against C04 as well)."""
    from ..core import Report
    from . import c09
    import contextlib, io
    sub = Report("C09", rep.tier, rep.repo)
    with contextlib.redirect_stdout(io.StringIO()):
        c09.histories(sub, index)
    bad = [o for o in sub.obs if not o.ok]
    rep.count("write-history obligations", len(sub.obs))
    rep.ob("C04.W3 repeated-writes-are-independent", "EoWriter string methods, all ordered pairs (%d obligations)" % len(sub.obs), not bad,
           "; ".join("%s -- %s" % (o.instance, o.detail) for o in bad[:3]) or "all discharged")


def codec_links(rep, index):
    """Link N: the two codec round trips this composition rests on (the C07 and C08 analyses, re-run here
    so that a broken codec is reported against C04 as well)."""
    from ..core import Report
    from . import c07, c08
    for name, mod in (("C07", c07), ("C08", c08)):
        sub = Report(name, rep.tier, rep.repo)
        sub.verbose = False
        import contextlib, io
        with contextlib.redirect_stdout(io.StringIO()):
            mod.run(sub, index)
        bad = [o for o in sub.obs if not o.ok]
        rep.count("codec obligations re-checked", len(sub.obs))
        rep.ob("C04.N1 codec-round-trip", "%s (%d obligations)" % (name, len(sub.obs)), not bad,
               "; ".join("%s %s -- %s" % (o.rule, o.instance, o.detail) for o in bad[:3]) or "all discharged")


def _fmt(p):
    return ",".join("%s=%s" % (k, "T" if v else "F") for k, v in p.log) or "-"
