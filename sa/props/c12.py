"""C12 -- generated sequence starts are always transmittable and reconstructible (engine B, fully)."""
from .. import affine as B
from ..affine import Aff
from ..core import AnalysisError
from ..numeval import NumEval, Obj

MOD = "eolib.packet.sequence_start"
CHAR = 253
SHORT = 253 * 253


def _randrange(ev, args, kw, node):
    """random.randrange(a, b): a fresh integer in [a, b-1]; obligation b > a ('generation never fails')."""
    if len(args) == 1:
        a, b = 0, args[0]
    elif len(args) == 2:
        a, b = args
    else:
        raise AnalysisError("engine B: randrange with a step")
    width = Aff.of(b) - Aff.of(a) - 1
    ok = B.prove_ge0(width)
    B.cur().events.append(("randrange", getattr(node, "lineno", 0), ok is True, "%r" % B.norm(width)))
    alo, _ = B.bounds(Aff.of(a))
    _, bhi = B.bounds(Aff.of(b))
    s = B.fresh("rnd@%d" % getattr(node, "lineno", 0), None if alo is None else int(alo), None if bhi is None else int(bhi) - 1)
    B.assume_ge0(s - Aff.of(a))
    B.assume_ge0(Aff.of(b) - 1 - s)
    return s


def _randint(ev, args, kw, node):
    a, b = args
    return _randrange(ev, [a, Aff.of(b) + 1], kw, node)


HOOKS = {"random.randrange": _randrange, "random.randint": _randint}

# class -> (generate, reconstructor, component properties, component upper bounds, documented value bound)
CASES = {
    "InitSequenceStart": ("from_init_values", ("seq1", "seq2"), (CHAR - 1, CHAR - 1), 1756),
    "PingSequenceStart": ("from_ping_values", ("seq1", "seq2"), (SHORT - 1, CHAR - 1), 1756),
    "AccountReplySequenceStart": ("from_value", ("value",), (CHAR - 1,), 240),
}


def run(rep, index):
    rep.level = "proof"
    rep.explanation = ("generate() of the three sequence-start classes is interpreted by engine B with random.randrange "
                       "modelled as an arbitrary integer of its range (side obligation: the range is non-empty); ranges of "
                       "value and wire components are bounded by interval/Fourier-Motzkin reasoning on every path and the "
                       "reconstruction from_*_values(components).value - value must normalise to the zero form.")
    m = index.module(MOD)
    lim = index.module("eolib.data.eo_numeric_limits")
    rep.ob("C12.R0 limit-table", "eo_numeric_limits.CHAR_MAX", lim.consts.get("CHAR_MAX") == CHAR, "CHAR_MAX = %r" % lim.consts.get("CHAR_MAX"))
    for cname, (recon, comps, comp_max, vmax) in CASES.items():
        if cname not in m.classes:
            raise AnalysisError("anchor vanished: %s.%s" % (MOD, cname))
        ev = NumEval(index, module_hooks=HOOKS)

        def task(cname=cname, recon=recon, comps=comps, ev=ev):
            o = ev.call_qual("%s.%s.generate" % (MOD, cname), [])
            if not isinstance(o, Obj):
                raise AnalysisError("%s.generate() did not return an object" % cname)
            fr = _frame(ev, m)
            value = fr.getattr(o, "value")
            cvals = [fr.getattr(o, c) for c in comps]
            back = ev.call_qual("%s.%s.%s" % (MOD, cname, recon), list(cvals))
            bvalue = fr.getattr(back, "value")
            return o, value, cvals, bvalue

        paths = B.explore(task)
        rep.count("generate paths", len(paths))
        rep.count("classes")
        for p, st, val in paths:
            B.set_path(p)
            inst = "%s.generate path[%s]" % (cname, _fmt(p))
            for e in p.events:
                if e[0] == "randrange":
                    rep.ob("C12.R1 generation-never-fails", "%s randrange@%d path[%s]" % (cname, e[1], _fmt(p)), e[2],
                           "width-1 = %s must be >= 0" % e[3])
            if st != "ok":
                rep.ob("C12.R1 generation-never-fails", inst, False, "raises %s" % val.exc_name)
                continue
            o, value, cvals, bvalue = val
            if any(e[0] == "randrange" and not e[2] for e in p.events):
                continue
            vlo, vhi = B.bounds(Aff.of(value))
            rep.ob("C12.R2 value-in-documented-range", inst, vlo is not None and vhi is not None and vlo >= 0 and vhi <= vmax,
                   "value in [%s,%s], documented 0..%d" % (vlo, vhi, vmax))
            for cn, cv, cm in zip(comps, cvals, comp_max):
                lo, hi = B.bounds(Aff.of(cv))
                rep.ob("C12.R3 component-fits-field", "%s %s" % (inst, cn), lo is not None and hi is not None and lo >= 0 and hi <= cm,
                       "%s in [%s,%s], field holds 0..%d" % (cn, lo, hi, cm))
            d = B.norm(Aff.of(bvalue) - Aff.of(value))
            ok = (d.is_const() and d.c == 0) or B.prove_eq0(d) is True
            rep.ob("C12.R4 reconstruction", inst, ok, "%s(components).value - value = %r" % (recon, d))
    rep.floor("classes", 3)
    rep.floor("generate paths", 3)
    rep.assumptions.append("random.randrange(a, b) returns an integer in [a, b-1] and raises iff b <= a (stdlib contract)")


def _frame(ev, m):
    from ..numeval import Frame
    return Frame(ev, m, {})


def _fmt(p):
    return ",".join("%s=%s" % (k, "T" if v else "F") for k, v in p.log) or "-"
