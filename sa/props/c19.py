"""C19 -- generated protocol objects are immutable snapshots (engine C, fully)."""
from ..core import AnalysisError
from ..genabs import lattice, skel


def analyse(fam, shape, placement, outcomes):
    out = []
    for o in outcomes:
        if o.rejected:
            continue
        inst = "%r in %s path[%s]" % (shape.key, placement, o.path())
        sk = o.value
        if skel.s_parse(sk):
            out.append(("C19.S0 skeleton-parses", inst, False, skel.s_parse(sk)[0][2], "C19.S0 | %s" % (shape.key[0],)))
            continue
        f = skel.s_immut(sk)
        out.append(("C19.S1 fields-private-getter-only-tuple-copied", inst, not f,
                    "; ".join("%s: %s" % (w, d) for _, w, d in f[:3]) or "fields private and set only in __init__, getter-only properties, "
                    "arrays stored as own tuples, serialize does not write the object",
                    "C19.S1 | %s | %s" % (shape.key[0], _gen(f[0][2]) if f else "")))
    return out


class _FileSkeleton:
    def __init__(self, text):
        import ast
        self._tree = ast.parse(text)

    def tree(self):
        return self._tree


def packets(rep, index):
    """The lattice objects are structs; packets add family()/action()/write() around the same body.  The S-immut rule
    is applied to every class of every file the abstractly executed generator writes for the 7-directory tree."""
    from ..genabs.driver import Session, run_program
    from .c18 import program_tree
    n = 0
    for o in run_program(Session(index), program_tree, runs=1):
        if o.rejected:
            raise AnalysisError("C19: the generator rejects the reference tree (%s at %s)" % (o.exc, o.exc_site))
        for f in o.value[0].files:
            if "class " not in f["content"]:
                continue
            try:
                sk = _FileSkeleton(f["content"])
            except SyntaxError:
                continue  # C18.Q1's business
            if not any(True for _ in skel.classes_of(sk.tree())):
                continue
            if "(IntEnum" in f["content"]:
                continue
            n += 1
            fnd = skel.s_immut(sk)
            rep.ob("C19.S1 fields-private-getter-only-tuple-copied", "file %s of the 7-directory tree path[%s]" % (f["path"], o.path()), not fnd,
                   "; ".join("%s: %s" % (w, d) for _, w, d in fnd[:3]) or "every class of the file passes S-immut")
    rep.count("program files with classes", n)
    rep.floor("program files with classes", 8)


def _gen(detail):
    import re
    return re.sub(r"h_\w+", "<name>", detail)[:80]


def run(rep, index):
    rep.level = "proof"
    rep.explanation = ("Abstract interpretation of the generator over the shape lattice; on every emitted class (case-data classes "
                       "included) the S-immut rule must hold: every field is a private attribute assigned only in __init__, exposed by a "
                       "getter-only property (no setter/deleter, no __setattr__), byte_size likewise (set once on the freshly built "
                       "result), array parameters are copied with tuple(), and serialize reads data._* without assigning or mutating.")
    results, stats = lattice.sweep(index.repo, analyse, rep.tier)
    for rule, inst, ok, detail, key in results:
        rep.ob(rule, inst, ok, detail, key=key)
    for k, v in stats.items():
        rep.count("lattice " + k, v)
    rep.floor("lattice accepted", 300)
    packets(rep, index)
    # blobs are the one field kind that is a mutable buffer: the runtime must neither alias what it reads
    # (deserialized instances) nor adopt what it is given to write (repeated serialization)
    from . import c05, c06, c09
    c06.include(rep, "C19.R1 reader-returns-copies-not-views", "C05", lambda sub: c05.run(sub, index),
                keep=lambda o: o.rule.startswith("C05.R9"))
    c06.include(rep, "C19.R2 writer-copies-what-it-is-given", "C09", lambda sub: c09.raw_bytes(sub, index))
    rep.assumptions += ["a property without a setter raises AttributeError on assignment (language semantics)",
                        "immutability of tuple elements is that of the element types (ints, strs, generated objects)"]
