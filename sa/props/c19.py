"""C19 -- generated protocol objects are immutable snapshots (engine C, fully)."""
from ..genabs import lattice, skel


def analyse(fam, shape, placement, outcomes):
    out = []
    for o in outcomes:
        if o.rejected:
            continue
        inst = "%r in %s path[%s]" % (shape.key, placement, o.path())
        sk = o.value
        if skel.s_parse(sk):
            out.append(("C19.S0 skeleton-parses", inst, False, skel.s_parse(sk)[0][2], "C19.S0 | %s" % (shape.key[0],)))
            continue
        f = skel.s_immut(sk)
        out.append(("C19.S1 fields-private-getter-only-tuple-copied", inst, not f,
                    "; ".join("%s: %s" % (w, d) for _, w, d in f[:3]) or "fields private and set only in __init__, getter-only properties, "
                    "arrays stored as own tuples, serialize does not write the object",
                    "C19.S1 | %s | %s" % (shape.key[0], _gen(f[0][2]) if f else "")))
    return out


def _gen(detail):
    import re
    return re.sub(r"h_\w+", "<name>", detail)[:80]


def run(rep, index):
    rep.level = "proof"
    rep.explanation = ("Abstract interpretation of the generator over the shape lattice; on every emitted class (case-data classes "
                       "included) the S-immut rule must hold: every field is a private attribute assigned only in __init__, exposed by a "
                       "getter-only property (no setter/deleter, no __setattr__), byte_size likewise (set once on the freshly built "
                       "result), array parameters are copied with tuple(), and serialize reads data._* without assigning or mutating.")
    results, stats = lattice.sweep(index.repo, analyse, rep.tier)
    for rule, inst, ok, detail, key in results:
        rep.ob(rule, inst, ok, detail, key=key)
    for k, v in stats.items():
        rep.count("lattice " + k, v)
    rep.floor("lattice accepted", 300)
    # blobs are the one field kind that is a mutable buffer: the runtime must neither alias what it reads
    # (deserialized instances) nor adopt what it is given to write (repeated serialization)
    from . import c05, c06, c09
    c06.include(rep, "C19.R1 reader-returns-copies-not-views", "C05", lambda sub: c05.run(sub, index),
                keep=lambda o: o.rule.startswith("C05.R9"))
    c06.include(rep, "C19.R2 writer-copies-what-it-is-given", "C09", lambda sub: c09.raw_bytes(sub, index))
    rep.assumptions += ["a property without a setter raises AttributeError on assignment (language semantics)",
                        "immutability of tuple elements is that of the element types (ints, strs, generated objects)"]
