"""C10, run clause: swap_multiples(data, m) with m >= 1 is an involution that keeps the length, the multiset of bytes and
the position of every non-multiple.

The scanning loop is executed abstractly for ONE generic iteration (engine B's affine domain, forking on every test):
position i in [0, E-1], run counter c in [0, i] standing for the hypothesis H(i, c): "positions i-c .. i-1 all hold
multiples of m" (c is the one loop-carried variable), P(i) = "data[i] is a multiple" an arbitrary boolean.  Buffer
accesses are interpreted over a symbolic store; the net effect of a straight-line block is reduced to transpositions,
a `for k in range(T)` block of swaps to a family (A(k), B(k)), k < T, a slice assignment to a (first, direction, count)
copy.  Obligations per path:
  R0  the counter is 0 before the first iteration
  R1  H is inductive: after a path on which P(i) holds, 0 <= c' <= c+1; after any other path c' = 0
  R2  every store goes to a position inside [i-c, i-1] (multiples only, already scanned), and a path that stores
      resets the counter (supports of different iterations are disjoint)
  R3  what one iteration does to the buffer is an involution that keeps the length: pairwise disjoint transpositions
      (A strictly up, B strictly down, A(k) <= B(k)) or an exact reversal of a slice onto itself
  R4  every buffer index is inside 0..len-1 (no IndexError, no wrap-around through negative indices)
  R5  the tested predicate is `data[i] % multiple == 0` of the current element only; indices never read the contents
Theorem (DESIGN.md, C10): R0-R5 => the multiple/non-multiple pattern is unchanged by a call, so a second call takes
the same branches and applies the same disjoint involutions: identity; non-multiples never move; length and multiset
are kept.
A failed obligation is reported only with a concrete witness: the extracted loop is replayed over position tokens for
every multiple-pattern up to length 7 and the property must really fail (then the pattern is in the report);
otherwise the function is beyond this proof method: exit 2.  Unknown statement forms: exit 2.
"""
import ast
import itertools

from .. import affine as B
from ..affine import Aff
from ..core import AnalysisError


class Unknown(AnalysisError):
    pass


class SimRaise(Exception):
    pass


class _HelperReturn(Exception):
    pass


# ------------------------------------------------------------------------------------------------ function shape
class Scan:
    def __init__(self, fn, consts):
        self.fn = fn
        self.consts = consts or {}
        self.helpers = {}
        if len(fn.args.args) != 2:
            raise Unknown("swap_multiples does not take (data, multiple)")
        self.data = fn.args.args[0].arg
        self.mult = fn.args.args[1].arg
        body = [st for st in fn.body if not (isinstance(st, ast.Expr) and isinstance(st.value, ast.Constant))]
        self.prefix, self.loop, self.suffix = [], None, []
        for st in body:
            if self.loop is None:
                if isinstance(st, (ast.For, ast.While)):
                    self.loop = st
                elif isinstance(st, ast.If) and not st.orelse and st.body and isinstance(st.body[-1], (ast.Raise, ast.Return)):
                    continue  # the multiple <= 0 exits: rules S1/S2
                else:
                    self.prefix.append(st)
            else:
                self.suffix.append(st)
        if self.loop is None:
            raise Unknown("swap_multiples has no scanning for-loop")
        lp = self.loop
        self.form = "for" if isinstance(lp, ast.For) else "while"
        if self.form == "while":
            self._init_while(fn, lp)
            return
        if lp.orelse or not isinstance(lp.target, ast.Name):
            raise Unknown("scanning loop with else / tuple target")
        it = lp.iter
        if not (isinstance(it, ast.Call) and isinstance(it.func, ast.Name) and it.func.id == "range" and len(it.args) == 1 and not it.keywords):
            raise Unknown("scanning loop does not iterate over range(E): %s" % ast.unparse(it))
        self.ivar = lp.target.id
        self.bound = it.args[0]
        assigned = set()
        for n in ast.walk(ast.Module(body=lp.body, type_ignores=[])):
            if isinstance(n, ast.Name) and isinstance(n.ctx, ast.Store):
                assigned.add(n.id)
        self.init_names = []
        for st in self.prefix:
            if not (isinstance(st, ast.Assign) and len(st.targets) == 1 and isinstance(st.targets[0], ast.Name)):
                raise Unknown("statement before the scanning loop: %s" % ast.unparse(st)[:60])
            self.init_names.append(st.targets[0].id)
        carried = [n for n in self.init_names if n in assigned]
        if len(carried) != 1:
            raise Unknown("expected exactly one loop-carried counter, found %r" % carried)
        self.cvar = carried[0]
        for st in self.suffix:
            for n in ast.walk(st):
                if isinstance(n, ast.Name) and n.id == self.ivar:
                    raise Unknown("the loop variable is used after the scanning loop")

    def _init_while(self, fn, lp):
        """while TEST(s): <scan for the end of the run> <reverse it> s = ...   -- one carried position variable."""
        if lp.orelse or self.suffix:
            raise Unknown("while-form scanner with else / statements after the loop")
        self.init_names = []
        for st in self.prefix:
            if not (isinstance(st, ast.Assign) and len(st.targets) == 1 and isinstance(st.targets[0], ast.Name)):
                raise Unknown("statement before the scanning loop: %s" % ast.unparse(st)[:60])
            self.init_names.append(st.targets[0].id)
        # carried: assigned in the body and read (in the test or the body) before being assigned in an iteration
        assigned = [n.id for x in lp.body for n in ast.walk(x) if isinstance(n, ast.Name) and isinstance(n.ctx, ast.Store)]
        first_store = {}
        for x in lp.body:
            for n in ast.walk(x):
                if isinstance(n, ast.Name) and isinstance(n.ctx, ast.Store):
                    first_store.setdefault(n.id, (n.lineno, n.col_offset))
        carried = set(n.id for n in ast.walk(lp.test) if isinstance(n, ast.Name) and n.id in assigned)
        for x in lp.body:
            for n in ast.walk(x):
                if isinstance(n, ast.Name) and isinstance(n.ctx, ast.Load) and n.id in first_store and (n.lineno, n.col_offset) < first_store[n.id]:
                    carried.add(n.id)
        carried = sorted(c for c in carried if c in self.init_names)
        if len(carried) != 1:
            raise Unknown("expected exactly one carried position variable in the while-form scanner, found %r" % carried)
        self.cvar = carried[0]
        self.ivar = None
        self.bound = None

    def is_pred(self, t):
        """t is `data[IDX] % multiple == 0` (-> IDX, positive) or `!= 0` (-> IDX, negative), else None."""
        def modexpr(e):
            if (isinstance(e, ast.BinOp) and isinstance(e.op, ast.Mod) and isinstance(e.right, ast.Name) and e.right.id == self.mult
                    and isinstance(e.left, ast.Subscript) and isinstance(e.left.value, ast.Name) and e.left.value.id == self.data
                    and not isinstance(e.left.slice, ast.Slice)):
                return e.left.slice
            return None
        if isinstance(t, ast.Compare) and len(t.ops) == 1 and isinstance(t.comparators[0], ast.Constant) and t.comparators[0].value == 0 \
                and type(t.comparators[0].value) is int:
            idx = modexpr(t.left)
            if idx is not None:
                if isinstance(t.ops[0], ast.Eq):
                    return idx, True
                if isinstance(t.ops[0], ast.NotEq):
                    return idx, False
        if isinstance(t, ast.UnaryOp) and isinstance(t.op, ast.Not):
            idx = modexpr(t.operand)
            if idx is not None:
                return idx, True
        idx = modexpr(t)
        if idx is not None:
            return idx, False  # truthy when the remainder is non-zero
        return None


def _reads_data(e, data):
    return any(isinstance(n, ast.Name) and n.id == data for n in ast.walk(e))


# ------------------------------------------------------------------------------------------------ interpreter (two number domains)
class Interp:
    """Executes statements of the scanning loop.  `sym`: numbers are affine forms, tests fork, the buffer is a symbolic
    store and obligations are collected.  Otherwise numbers are ints and the buffer is a list of position tokens."""

    def __init__(self, scan, sym, L, env, tokens=None, pattern=None):
        self.s = scan
        self.sym = sym
        self.L = L
        self.env = env
        self.tok = tokens
        self.pattern = pattern
        self.P_i = None
        self.i = None  # the scanned position of this iteration (form / int)
        self.c0 = None  # the counter at the head of this iteration
        self.obl = []  # (rule, ok, detail)
        self.writes = []  # symbolic store of the current straight-line block: (index form, token)
        self.effects = []  # closed effects of this iteration: ("swap", A, B, k, T) / ("slice", lo, hi, first, dir, n)
        self.temps = {}  # name -> token (an element value held in a local)
        self.stored = False
        self.dnames = {scan.data}  # names bound to the buffer (the parameter; a helper's parameter while it is inlined)
        self.all_p = []  # (lo, hi): positions lo..hi-1 are known to hold multiples (established by a scan loop)
        self.depth = 0

    # -- numbers
    def num(self, e):
        if isinstance(e, ast.Constant) and type(e.value) is int:
            return Aff(e.value) if self.sym else e.value
        if isinstance(e, ast.Name):
            if e.id in self.env:
                return self.env[e.id]
            if e.id in self.temps:
                raise Unknown("an element value (%s) is used as a number: the schedule would depend on the contents" % e.id)
            v = self.s.consts.get(e.id)
            if type(v) is int:
                return Aff(v) if self.sym else v
            raise Unknown("name %s in swap_multiples" % e.id)
        if isinstance(e, ast.Call) and isinstance(e.func, ast.Name) and e.func.id == "len" and len(e.args) == 1 \
                and isinstance(e.args[0], ast.Name) and e.args[0].id in self.dnames:
            return self.L if self.sym else len(self.tok)
        if isinstance(e, ast.UnaryOp) and isinstance(e.op, ast.USub):
            return -self.num(e.operand)
        if isinstance(e, ast.BinOp):
            if any(_reads_data(e, d) for d in self.dnames) and not (isinstance(e.left, ast.Call) or isinstance(e.right, ast.Call)):
                raise Unknown("arithmetic on buffer contents: %s" % ast.unparse(e))
            a, b = self.num(e.left), self.num(e.right)
            op = e.op
            if isinstance(op, ast.Add):
                return a + b
            if isinstance(op, ast.Sub):
                return a - b
            if isinstance(op, ast.Mult):
                return B.mul(a, b) if self.sym else a * b
            if isinstance(op, (ast.FloorDiv, ast.Mod)):
                if not self.sym:
                    if b == 0:
                        raise SimRaise("ZeroDivisionError")
                    return a // b if isinstance(op, ast.FloorDiv) else a % b
                bb = B.norm(b)
                if bb.is_const() and bb.c > 0:
                    q, r = B.divmod_const(a, int(bb.c))
                    return q if isinstance(op, ast.FloorDiv) else r
        raise Unknown("expression %s in swap_multiples" % ast.unparse(e))

    # -- tests
    def test(self, t):
        if isinstance(t, ast.BoolOp):
            if isinstance(t.op, ast.And):
                for v in t.values:
                    if not self.test(v):
                        return False
                return True
            for v in t.values:
                if self.test(v):
                    return True
            return False
        if isinstance(t, ast.UnaryOp) and isinstance(t.op, ast.Not) and self.s.is_pred(t) is None:
            return not self.test(t.operand)
        pr = self.s.is_pred(t)
        if pr is not None:
            idx_e, positive = pr
            v = self.pred(idx_e)
            return v if positive else not v
        if isinstance(t, ast.Compare) and len(t.ops) >= 1:
            left = self.num(t.left)
            for op, right_e in zip(t.ops, t.comparators):
                right = self.num(right_e)
                if not self.cmp(op, left, right, ast.unparse(t)):
                    return False
                left = right
            return True
        raise Unknown("test %s in swap_multiples" % ast.unparse(t))

    def cmp(self, op, a, b, label):
        if not self.sym:
            return {ast.Lt: a < b, ast.LtE: a <= b, ast.Gt: a > b, ast.GtE: a >= b, ast.Eq: a == b, ast.NotEq: a != b}[type(op)]
        label = "%s@i" % label
        if isinstance(op, ast.Lt):
            return B.decide_ge0(b - a - 1, label)
        if isinstance(op, ast.LtE):
            return B.decide_ge0(b - a, label)
        if isinstance(op, ast.Gt):
            return B.decide_ge0(a - b - 1, label)
        if isinstance(op, ast.GtE):
            return B.decide_ge0(a - b, label)
        if isinstance(op, ast.Eq):
            return B.decide_eq0(a - b, label)
        if isinstance(op, ast.NotEq):
            return not B.decide_eq0(a - b, label)
        raise Unknown("comparison operator in %s" % label)

    def pred(self, idx_e):
        idx = self.num(idx_e)
        if not self.sym:
            return self.pattern[self.load(idx)]
        self.bounds(idx, "predicate read data[%s]" % ast.unparse(idx_e))
        if self.i is None or not B.is_zero(idx - self.i):
            raise Unknown("the multiple-test reads data[%s], not the current position" % ast.unparse(idx_e))
        if self.writes or self.effects:
            raise Unknown("the multiple-test is evaluated after a store in the same iteration")
        if self.P_i is None:
            self.P_i = B.cur().choose("P(i)")
        return self.P_i

    # -- buffer
    def bounds(self, idx, what):
        if not self.sym:
            return
        lo_ok = B.prove_ge0(idx)
        hi_ok = B.prove_ge0(self.L - 1 - idx)
        ok = lo_ok is True and hi_ok is True
        self.obl.append(("C10.R4 indices-in-bounds", True if ok else (False if (lo_ok is False or hi_ok is False) else None),
                         "%s: index %r with len %r" % (what, B.norm(idx), B.norm(self.L))))

    def load(self, idx):
        if not self.sym:
            if not 0 <= idx < len(self.tok):
                # a negative index would wrap around in Python: as far from the model as an IndexError
                raise SimRaise("index %d outside a buffer of %d" % (idx, len(self.tok)))
            return self.tok[idx]
        self.bounds(idx, "load")
        for w_idx, token in reversed(self.writes):
            if B.decide_eq0(w_idx - idx, "alias %r=%r" % (B.norm(w_idx), B.norm(idx))):
                return token
        return ("orig", idx)

    def store(self, idx, token):
        if not self.sym:
            if not 0 <= idx < len(self.tok):
                raise SimRaise("index %d outside a buffer of %d" % (idx, len(self.tok)))
            self.tok[idx] = token
            return
        self.bounds(idx, "store")
        self.stored = True
        self.writes.append((idx, token))

    def elem(self, e):
        """The value of an element-valued expression: data[IDX] or a temp."""
        if isinstance(e, ast.Subscript) and isinstance(e.value, ast.Name) and e.value.id in self.dnames and not isinstance(e.slice, ast.Slice):
            return self.load(self.num(e.slice))
        if isinstance(e, ast.Name) and e.id in self.temps:
            return self.temps[e.id]
        raise Unknown("element expression %s" % ast.unparse(e))

    def is_elem_target(self, t):
        return isinstance(t, ast.Subscript) and isinstance(t.value, ast.Name) and t.value.id in self.dnames and not isinstance(t.slice, ast.Slice)

    # -- statements
    def block(self, body):
        for st in body:
            self.stmt(st)

    def stmt(self, st):
        if isinstance(st, ast.Pass) or (isinstance(st, ast.Expr) and isinstance(st.value, ast.Constant)):
            return
        if isinstance(st, ast.If):
            self.block(st.body if self.test(st.test) else st.orelse)
            return
        if isinstance(st, ast.AugAssign) and isinstance(st.target, ast.Name) and isinstance(st.op, (ast.Add, ast.Sub)) and st.target.id in self.env:
            d = self.num(st.value)
            self.env[st.target.id] = self.env[st.target.id] + (d if isinstance(st.op, ast.Add) else -d)
            return
        if isinstance(st, ast.Assign) and len(st.targets) == 1:
            t, v = st.targets[0], st.value
            if isinstance(t, ast.Name):
                if (isinstance(v, ast.Subscript) and isinstance(v.value, ast.Name) and v.value.id in self.dnames and not isinstance(v.slice, ast.Slice)):
                    self.temps[t.id] = self.elem(v)
                    self.env.pop(t.id, None)
                    return
                if t.id == self.s.ivar:
                    raise Unknown("the loop variable is reassigned")
                self.env[t.id] = self.num(v)
                self.temps.pop(t.id, None)
                return
            if self.is_elem_target(t):
                self.store(self.num(t.slice), self.elem(v))
                return
            if isinstance(t, ast.Tuple) and isinstance(v, ast.Tuple) and len(t.elts) == len(v.elts) and all(self.is_elem_target(x) for x in t.elts):
                vals = [self.elem(x) for x in v.elts]
                for x, val in zip(t.elts, vals):
                    self.store(self.num(x.slice), val)
                return
            if isinstance(t, ast.Subscript) and isinstance(t.value, ast.Name) and t.value.id in self.dnames and isinstance(t.slice, ast.Slice):
                self.slice_assign(t.slice, v)
                return
        if isinstance(st, ast.For):
            self.inner_for(st)
            return
        if isinstance(st, ast.While):
            self.inner_while(st)
            return
        if isinstance(st, ast.Expr) and isinstance(st.value, ast.Call) and isinstance(st.value.func, ast.Name) and st.value.func.id in self.s.helpers:
            self.call_helper(st.value)
            return
        if isinstance(st, ast.Return) and st.value is None and self.depth > 0:
            raise _HelperReturn()
        raise Unknown("statement %s in swap_multiples" % ast.unparse(st)[:70])

    # -- helpers are inlined
    def call_helper(self, call):
        fn = self.s.helpers[call.func.id]
        if call.keywords or len(call.args) != len(fn.args.args) or self.depth >= 3:
            raise Unknown("call %s" % ast.unparse(call)[:60])
        saved = (self.env, self.temps, self.dnames)
        env, dn = {}, set()
        for prm, a in zip(fn.args.args, call.args):
            if isinstance(a, ast.Name) and a.id in self.dnames:
                dn.add(prm.arg)
            else:
                env[prm.arg] = self.num(a)
        if len(dn) != 1:
            raise Unknown("helper %s is not handed the buffer exactly once" % call.func.id)
        if self.s.mult in saved[0]:
            env.setdefault(self.s.mult, saved[0][self.s.mult])
        self.env, self.temps, self.dnames = env, {}, dn
        self.depth += 1
        try:
            self.block([x for x in fn.body if not (isinstance(x, ast.Expr) and isinstance(x.value, ast.Constant))])
        except _HelperReturn:
            pass
        finally:
            self.depth -= 1
            self.env, self.temps, self.dnames = saved

    # -- while loops inside an iteration: a scan over multiples, or a two-pointer swap loop
    def inner_while(self, st):
        if st.orelse:
            raise Unknown("while-else")
        if not self.sym:
            n = 0
            while self.test(st.test):
                n += 1
                if n > 10000:
                    raise SimRaise("a loop does not terminate")
                self.block(st.body)
            return
        conj = st.test.values if isinstance(st.test, ast.BoolOp) and isinstance(st.test.op, ast.And) else [st.test]
        preds = [c for c in conj if self.s.is_pred(c) is not None]
        if preds:
            self.scan_loop(st, conj, preds)
        else:
            self.swap_while(st)

    def scan_loop(self, st, conj, preds):
        """while v < E and data[v] % multiple == 0: v += 1   ->   v = the first position >= v0 that is E or holds a non-multiple;
        positions v0..v-1 hold multiples."""
        if len(preds) != 1 or len(st.body) != 1:
            raise Unknown("scan loop %s" % ast.unparse(st.test)[:60])
        idx_e, positive = self.s.is_pred(preds[0])
        b = st.body[0]
        if not (positive and isinstance(idx_e, ast.Name) and isinstance(b, ast.AugAssign) and isinstance(b.target, ast.Name) and b.target.id == idx_e.id
                and isinstance(b.op, ast.Add) and isinstance(b.value, ast.Constant) and b.value.value == 1 and idx_e.id in self.env):
            raise Unknown("scan loop %s does not step its index by one over multiples" % ast.unparse(st.test)[:60])
        if conj[-1] is not preds[0]:
            raise Unknown("the multiple-test of a scan loop is not guarded by the bound test")
        v = idx_e.id
        v0 = self.env[v]
        self.close_block()
        if self.writes or self.effects:
            raise Unknown("a scan loop after stores in the same iteration")
        bound = None
        for c in conj[:-1]:
            if isinstance(c, ast.Compare) and len(c.ops) == 1 and isinstance(c.left, ast.Name) and c.left.id == v and isinstance(c.ops[0], (ast.Lt, ast.NotEq)):
                e_ = self.num(c.comparators[0])
                bound = e_ if bound is None else bound
                if isinstance(c.ops[0], ast.NotEq) and B.prove_ge0(e_ - v0) is not True:
                    raise Unknown("scan loop bounded by != without the index starting below the bound")
            else:
                raise Unknown("scan loop condition %s" % ast.unparse(c))
        if bound is None:
            raise Unknown("scan loop without a bound test")
        fits = B.prove_ge0(self.L - bound) is True and B.prove_ge0(v0) is True
        self.obl.append(("C10.R4 indices-in-bounds", fits, "scan reads positions %r..%r-1 of a buffer of %r" % (B.norm(v0), B.norm(bound), B.norm(self.L))))
        if not B.decide_ge0(bound - v0 - 1, "scan starts below its bound"):
            return  # the loop does not run
        nm = B.fresh("end-of-run", 0, None)
        B.assume_ge0(nm - v0)
        B.assume_ge0(bound - nm)
        self.env[v] = nm
        self.all_p.append((v0, nm))
        self.run_end_is_bound = B.cur().choose("the run reaches the scan bound")
        if self.run_end_is_bound:
            B.assume_eq0(nm - bound)
            B._check_alive()
        else:
            B.assume_ge0(bound - nm - 1)  # position nm exists and holds a non-multiple
            B._check_alive()

    def swap_while(self, st):
        """while low < high: swap(data[low], data[high]); low += 1; high -= 1   ->   a family with a closed-form trip count."""
        counters = {}
        body_rest = []
        for b in st.body:
            if isinstance(b, ast.AugAssign) and isinstance(b.target, ast.Name) and isinstance(b.op, (ast.Add, ast.Sub)) and b.target.id in self.env:
                d = self.num(b.value)
                c = B.const_of(d)
                if c is None:
                    raise Unknown("loop counter advanced by a non-constant")
                counters[b.target.id] = counters.get(b.target.id, 0) + (int(c) if isinstance(b.op, ast.Add) else -int(c))
            else:
                body_rest.append(b)
        if not counters:
            raise Unknown("while loop %s without counters" % ast.unparse(st.test)[:60])
        for b in st.body:
            # counters must be advanced after the stores (so that the stores of iteration k use the values at its head)
            if b in body_rest and any(isinstance(x, ast.AugAssign) for x in st.body[:st.body.index(b)]):
                raise Unknown("stores after a counter update inside a swap loop")
        if not isinstance(st.test, ast.Compare) or len(st.test.ops) != 1:
            raise Unknown("swap loop test %s" % ast.unparse(st.test))
        a, b_ = self.num(st.test.left), self.num(st.test.comparators[0])
        op = st.test.ops[0]
        g0 = {ast.Lt: b_ - a - 1, ast.LtE: b_ - a, ast.Gt: a - b_ - 1, ast.GtE: a - b_}.get(type(op))
        if g0 is None:
            raise Unknown("swap loop test %s" % ast.unparse(st.test))
        entry = dict(self.env)
        shifted = {n: entry[n] + d for n, d in counters.items()}
        self.env.update(shifted)
        a1, b1 = self.num(st.test.left), self.num(st.test.comparators[0])
        self.env = dict(entry)
        g1 = {ast.Lt: b1 - a1 - 1, ast.LtE: b1 - a1, ast.Gt: a1 - b1 - 1, ast.GtE: a1 - b1}[type(op)]
        gamma = B.const_of(g1 - g0)
        if gamma is None or gamma >= 0:
            raise Unknown("swap loop test does not decrease by a constant")
        step = int(-gamma)
        self.close_block()
        if not B.decide_ge0(g0, "swap loop entered"):
            return
        T = B.divmod_const(g0, step)[0] + 1
        k = B.fresh("k", 0, None)
        B.assume_ge0(T - 1 - k)
        ksym = list(k.t)[0]
        self.env = {n: (entry[n] + Aff.of(k).scale(counters[n]) if n in counters else entry[n]) for n in entry}
        saved_temps = dict(self.temps)
        self.block(body_rest)
        pairs = self.net_transpositions("swap loop at line %d" % st.lineno)
        self.writes = []
        self.temps = saved_temps
        self.env = {n: (entry[n] + Aff.of(T).scale(counters[n]) if n in counters else entry[n]) for n in entry}
        for x, y in pairs or []:
            self.effects.append(("swap", x, y, ksym, T))

    # -- inner loop: for k in range(T): <swaps>
    def inner_for(self, st):
        it = st.iter
        if st.orelse or not isinstance(st.target, ast.Name) or not (isinstance(it, ast.Call) and isinstance(it.func, ast.Name)
                                                                  and it.func.id == "range" and len(it.args) == 1 and not it.keywords):
            raise Unknown("inner loop %s" % ast.unparse(st)[:60])
        kname = st.target.id
        T = self.num(it.args[0])
        if not self.sym:
            saved = self.env.get(kname)
            for k in range(max(0, T)):
                self.env[kname] = k
                self.block(st.body)
            if saved is not None:
                self.env[kname] = saved
            return
        assigned = {n.id for x in st.body for n in ast.walk(x) if isinstance(n, ast.Name) and isinstance(n.ctx, ast.Store)}
        if assigned & (set(self.env) - {kname}):
            raise Unknown("the inner loop updates %r: loop-carried state inside the swap loop" % sorted(assigned & set(self.env)))
        if not B.decide_ge0(T - 1, "inner loop entered"):
            return
        self.close_block()
        k = B.fresh("k", 0, None)
        B.assume_ge0(T - 1 - k)
        saved_env, saved_temps = dict(self.env), dict(self.temps)
        self.env[kname] = k
        self.block(st.body)
        pairs = self.net_transpositions("inner loop at line %d" % st.lineno)
        self.writes = []
        self.env, self.temps = saved_env, saved_temps
        if pairs is None:
            return
        ksym = list(k.t)[0]
        for a, b in pairs:
            self.effects.append(("swap", a, b, ksym, T))

    def close_block(self):
        """Reduce the straight-line stores made so far to transpositions (families of one)."""
        if not self.sym or not self.writes:
            return
        pairs = self.net_transpositions("straight-line stores")
        self.writes = []
        for a, b in pairs or []:
            self.effects.append(("swap", a, b, None, Aff(1)))

    def net_transpositions(self, what):
        final = []  # (index form, token), distinct indices, last store wins
        for idx, token in reversed(self.writes):
            if any(B.decide_eq0(idx - j, "alias %r=%r" % (B.norm(idx), B.norm(j))) for j, _ in final):
                continue
            final.append((idx, token))
        pairs, used = [], set()
        ok = True
        for n, (idx, token) in enumerate(final):
            if n in used:
                continue
            if token[0] != "orig":
                raise Unknown("stored value is not a buffer element")
            src = token[1]
            if B.decide_eq0(src - idx, "same %r=%r" % (B.norm(src), B.norm(idx))):
                continue  # the element is stored back where it was
            partner = None
            for m2, (jdx, tok2) in enumerate(final):
                if m2 != n and m2 not in used and B.is_zero(jdx - src) and tok2[0] == "orig" and B.is_zero(tok2[1] - idx):
                    partner = m2
            if partner is None:
                ok = False
                self.obl.append(("C10.R3 per-iteration-involution", False,
                                 "%s: position %r receives the element of position %r but not the other way round (a copy, not a swap)"
                                 % (what, B.norm(idx), B.norm(src))))
                continue
            used.add(n)
            used.add(partner)
            pairs.append((idx, src))
        return pairs if ok else None

    # -- slices
    def slice_assign(self, tsl, v):
        if tsl.step is not None:
            raise Unknown("extended-slice assignment")
        if not self.sym:
            lo = None if tsl.lower is None else self.num(tsl.lower)
            hi = None if tsl.upper is None else self.num(tsl.upper)
            self.tok[lo:hi] = self.seq_conc(v)
            return
        self.close_block()
        lo = Aff(0) if tsl.lower is None else self.num(tsl.lower)
        hi = self.L if tsl.upper is None else self.num(tsl.upper)
        self.need_range(lo, hi, "assigned slice")
        first, direction, n = self.seq_sym(v)
        self.stored = True
        self.effects.append(("slice", lo, hi, first, direction, n))

    def need_range(self, lo, hi, what):
        """0 <= lo <= hi <= len, decided (forking); outside it Python clamps/wraps: not modelled."""
        for form, txt in ((lo, "lower bound negative"), (hi - lo, "upper bound below lower bound"), (self.L - hi, "upper bound beyond the end")):
            if not B.decide_ge0(form, "%s: %s" % (what, txt)):
                raise Unknown("%s: %s on a reachable path (clamping/wrapping slice semantics are not modelled)" % (what, txt))

    def seq_sym(self, v):
        """-> (index of the first element, direction, count) of a sequence expression built from slices of the buffer."""
        if isinstance(v, ast.Call) and isinstance(v.func, ast.Name) and len(v.args) == 1 and not v.keywords:
            if v.func.id in ("bytes", "bytearray", "list", "tuple"):
                return self.seq_sym(v.args[0])
            if v.func.id == "reversed":
                f, d, n = self.seq_sym(v.args[0])
                return f + (n - 1).scale(d), -d, n
        if isinstance(v, ast.Subscript) and isinstance(v.slice, ast.Slice):
            sl = v.slice
            step = None if sl.step is None else B.const_of(self.num(sl.step))
            if sl.step is not None and step not in (1, -1):
                raise Unknown("slice step %s" % ast.unparse(sl.step))
            step = step or 1
            base_is_data = isinstance(v.value, ast.Name) and v.value.id in self.dnames
            if not base_is_data:
                f, d, n = self.seq_sym(v.value)
                if sl.lower is None and sl.upper is None:
                    if step == 1:
                        return f, d, n
                    return f + (n - 1).scale(d), -d, n
                raise Unknown("slice of a slice with bounds: %s" % ast.unparse(v))
            if step == 1:
                lo = Aff(0) if sl.lower is None else self.num(sl.lower)
                hi = self.L if sl.upper is None else self.num(sl.upper)
                self.need_range(lo, hi, "source slice")
                return lo, 1, hi - lo
            # data[a:b:-1]
            a = self.L - 1 if sl.lower is None else self.num(sl.lower)
            if not B.decide_ge0(a, "reverse slice start >= 0") or not B.decide_ge0(self.L - 1 - a, "reverse slice start < len"):
                raise Unknown("reverse slice start outside 0..len-1 on a reachable path")
            if sl.upper is None:
                return a, -1, a + 1
            b = self.num(sl.upper)
            if B.decide_ge0(b, "reverse slice stop >= 0"):
                stop = b
            elif B.decide_ge0(self.L + b, "reverse slice stop >= -len"):
                stop = self.L + b  # a negative stop counts from the end
            else:
                return a, -1, a + 1
            if B.decide_ge0(a - stop, "reverse slice non-empty"):
                return a, -1, a - stop
            return a, -1, Aff(0)
        raise Unknown("sequence expression %s" % ast.unparse(v))

    def seq_conc(self, v):
        if isinstance(v, ast.Call) and isinstance(v.func, ast.Name) and len(v.args) == 1 and not v.keywords:
            if v.func.id in ("bytes", "bytearray", "list", "tuple"):
                return list(self.seq_conc(v.args[0]))
            if v.func.id == "reversed":
                return list(reversed(self.seq_conc(v.args[0])))
        if isinstance(v, ast.Subscript) and isinstance(v.slice, ast.Slice):
            sl = v.slice
            parts = [None if x is None else self.num(x) for x in (sl.lower, sl.upper, sl.step)]
            base = self.tok if (isinstance(v.value, ast.Name) and v.value.id in self.dnames) else self.seq_conc(v.value)
            return list(base[slice(*parts)])
        raise Unknown("sequence expression %s" % ast.unparse(v))


# ------------------------------------------------------------------------------------------------ the symbolic iteration
def _iteration(scan, virtual_last=False):
    """One generic iteration (or, with virtual_last, the statements after the loop at position E).  -> obligations."""
    L = B.fresh("len", 0, None)
    mult = B.fresh("multiple", 1, None)
    pre = Interp(scan, True, L, {scan.mult: mult})
    for st in scan.prefix:
        pre.stmt(st)
    env0 = pre.env
    E = pre.num(scan.bound)
    obl = []
    c_init = env0[scan.cvar]
    obl.append(("C10.R0 counter-starts-at-zero", B.is_zero(c_init), "%s = %r before the loop" % (scan.cvar, B.norm(c_init))))
    fits = B.prove_ge0(L - E + 1) is True
    obl.append(("C10.R4 indices-in-bounds", fits, "the scan visits positions 0..%r of a buffer of %r" % (B.norm(E - 1), B.norm(L))))
    i = B.fresh("i", 0, None)
    if virtual_last:
        B.assume_ge0(i - E)
        B.assume_ge0(E - i)
    else:
        B.assume_ge0(E - 1 - i)
    c = B.fresh("c", 0, None)
    B.assume_ge0(i - c)
    if fits:
        B.assume_ge0(L - i)
    env = dict(env0)
    env[scan.cvar] = c
    it = Interp(scan, True, L, env)
    it.i, it.c0 = i, c
    if virtual_last:
        env.pop(scan.ivar, None)
        it.block(scan.suffix)
    else:
        env[scan.ivar] = i
        it.block(scan.loop.body)
    it.close_block()
    if len(it.effects) > 1:
        raise Unknown("several separate buffer updates in one iteration (their composition is not analysed)")
    obl.extend(it.obl)
    c1 = it.env[scan.cvar]
    last = virtual_last or B.is_zero(i - (E - 1))
    # R1
    if it.P_i is True:
        ok = B.prove_ge0(c1) is True and B.prove_ge0(c + 1 - c1) is True
        obl.append(("C10.R1 run-counter-inductive", ok, "P(i) holds: counter %r -> %r (needs 0 <= c' <= c+1)" % (B.norm(c), B.norm(c1))))
    elif not last:
        obl.append(("C10.R1 run-counter-inductive", B.is_zero(c1),
                    "position i is not a multiple (or not examined): counter %r -> %r (needs 0)" % (B.norm(c), B.norm(c1))))
    else:
        obl.append(("C10.R1 run-counter-inductive", True, "last position: the counter is not used again"))
    # R2, R3
    run_lo, run_hi = i - c, i - 1
    _effect_obligations(it, obl, [(run_lo, run_hi + 1)])
    if it.stored and not last:
        obl.append(("C10.R2 stores-inside-the-scanned-run", B.is_zero(c1),
                    "an iteration that stores must reset the counter (next run cannot overlap this one): c' = %r" % B.norm(c1)))
    return obl, it.stored


def _effect_obligations(it, obl, runs):
    """R2 (every store inside one of `runs` = [(lo, hi)]: positions lo..hi-1 known to hold multiples) and R3 (the effect
    is an involution that keeps the length)."""
    def in_a_run(lo_i, hi_i):
        # positions lo_i .. hi_i-1 inside one run
        return any(B.prove_ge0(lo_i - lo) is True and B.prove_ge0(hi - hi_i) is True for lo, hi in runs)
    shown = ", ".join("[%r, %r)" % (B.norm(lo), B.norm(hi)) for lo, hi in runs) or "none"
    for eff in it.effects:
        if eff[0] == "swap":
            _, a, b, ksym, T = eff
            for nm, idx in (("first", a), ("second", b)):
                obl.append(("C10.R2 stores-inside-the-scanned-run", in_a_run(idx, idx + 1),
                            "swap %s index %r, run(s) of multiples: %s" % (nm, B.norm(idx), shown)))
            if ksym is not None:
                na, nb = B.norm(a), B.norm(b)
                da, db = na.t.get(ksym, 0), nb.t.get(ksym, 0)
                one = B.prove_ge0(Aff(1) - T) is True
                if one or (da > 0 and db < 0 and B.prove_ge0(b - a) is True) or (da < 0 and db > 0 and B.prove_ge0(a - b) is True):
                    obl.append(("C10.R3 per-iteration-involution", True,
                                "swaps (%r, %r), k < %r: strides %+d/%+d and the sides never cross: pairwise disjoint transpositions"
                                % (na, nb, B.norm(T), da, db)))
                else:
                    obl.append(("C10.R3 per-iteration-involution", False,
                                "swaps (%r, %r), k < %r: strides %+d/%+d: the pairs are not shown to be disjoint" % (na, nb, B.norm(T), da, db)))
            else:
                obl.append(("C10.R3 per-iteration-involution", True, "one transposition (%r, %r)" % (B.norm(a), B.norm(b))))
        else:
            _, lo, hi, first, direction, n = eff
            empty = B.is_zero(hi - lo) and B.is_zero(n)
            obl.append(("C10.R2 stores-inside-the-scanned-run", in_a_run(lo, hi) or empty,
                        "slice [%r, %r) assigned, run(s) of multiples: %s" % (B.norm(lo), B.norm(hi), shown)))
            same_len = B.is_zero(n - (hi - lo))
            obl.append(("C10.R3 per-iteration-involution", same_len,
                        "slice of %r positions receives %r elements%s" % (B.norm(hi - lo), B.norm(n), "" if same_len else ": the length changes")))
            if same_len:
                rev = direction == -1 and B.is_zero(first - (hi - 1))
                ident = direction == 1 and B.is_zero(first - lo)
                obl.append(("C10.R3 per-iteration-involution", rev or ident or empty,
                            "slice [%r, %r) receives the elements from %r going %+d: %s"
                            % (B.norm(lo), B.norm(hi), B.norm(first), direction, "its own reversal" if rev else "itself" if ident else "another region")))


def _written_extent(it):
    """[(lowest index form, one past the highest)] of each effect, for the disjointness obligations."""
    out = []
    for eff in it.effects:
        if eff[0] == "swap":
            out.append((eff[1], eff[1] + 1))
            out.append((eff[2], eff[2] + 1))
        else:
            out.append((eff[1], eff[2]))
    return out


def _iteration_while(scan):
    """One generic iteration of a while-form scanner: the carried position s is arbitrary (>= 0) with the loop test true."""
    L = B.fresh("len", 0, None)
    mult = B.fresh("multiple", 1, None)
    pre = Interp(scan, True, L, {scan.mult: mult})
    for st in scan.prefix:
        pre.stmt(st)
    env0 = pre.env
    obl = []
    s_init = env0[scan.cvar]
    obl.append(("C10.R0 counter-starts-at-zero", B.prove_ge0(s_init) is True, "%s = %r before the loop (a position)" % (scan.cvar, B.norm(s_init))))
    s = B.fresh("s", 0, None)
    env = dict(env0)
    env[scan.cvar] = s
    it = Interp(scan, True, L, env)
    if not it.test(scan.loop.test):
        raise B.DeadPath()
    it.block(scan.loop.body)
    it.close_block()
    if len(it.effects) > 1:
        raise Unknown("several separate buffer updates in one iteration (their composition is not analysed)")
    obl.extend(it.obl)
    s1 = it.env[scan.cvar]
    obl.append(("C10.R1 run-counter-inductive", B.prove_ge0(s1 - s) is True, "the position never moves backwards: %r -> %r" % (B.norm(s), B.norm(s1))))
    _effect_obligations(it, obl, list(it.all_p))
    for lo, hi in _written_extent(it):
        # the supports of different iterations are disjoint: this one writes inside [s, s')
        ok = B.prove_ge0(lo - s) is True and B.prove_ge0(s1 - hi) is True
        if B.is_zero(hi - lo):
            ok = True
        obl.append(("C10.R2 stores-inside-the-scanned-run", ok,
                    "stores to [%r, %r) must lie between this iteration's position %r and the next one's %r" % (B.norm(lo), B.norm(hi), B.norm(s), B.norm(s1))))
    return obl, it.stored


# ------------------------------------------------------------------------------------------------ concrete replay of the extracted loop
def _replay(scan, tokens, pattern):
    """The scanning loop over position tokens; `pattern[token]` says whether that byte is a multiple."""
    tok = list(tokens)
    pre = Interp(scan, False, None, {}, tok, pattern)
    for st in scan.prefix:
        pre.stmt(st)
    env = pre.env
    if scan.mult in env:
        raise Unknown("multiple is reassigned")
    it = Interp(scan, False, None, env, tok, pattern)
    if scan.form == "while":
        n = 0
        while it.test(scan.loop.test):
            n += 1
            if n > 10000:
                raise SimRaise("the scanning loop does not terminate")
            it.block(scan.loop.body)
        return it.tok
    E = it.num(scan.bound)
    for i in range(max(0, E)):
        env[scan.ivar] = i
        it.block(scan.loop.body)
    it.block(scan.suffix)
    return it.tok


def find_witness(scan, max_len=7):
    for n in range(0, max_len + 1):
        for bits in itertools.product((False, True), repeat=n):
            base = list(range(n))
            txt = "multiples at %s of %d positions" % ([j for j in range(n) if bits[j]], n)
            try:
                once = _replay(scan, base, bits)
            except SimRaise as e:
                return "%s: the call fails (%s)" % (txt, e)
            if len(once) != n:
                return "%s: the length becomes %d" % (txt, len(once))
            if sorted(once) != base:
                return "%s: the bytes are not a permutation of the input (positions %s)" % (txt, once)
            moved = [j for j in range(n) if not bits[j] and once[j] != j]
            if moved:
                return "%s: the non-multiple at position %d moves" % (txt, moved[0])
            try:
                twice = _replay(scan, once, bits)
            except SimRaise as e:
                return "%s: the second call fails (%s)" % (txt, e)
            if twice != base:
                return "%s: applying it twice gives positions %s" % (txt, twice)
    return None


# ------------------------------------------------------------------------------------------------ entry
def run_clause(rep, index, m):
    fn = m.functions["swap_multiples"]
    try:
        scan = Scan(fn, m.consts)
        scan.helpers = {name: f for name, f in m.functions.items() if name != fn.name}
        # R5, structural part: the predicate is found somewhere in the loop and no index reads the contents
        preds = [n for n in ast.walk(scan.loop) if scan.is_pred(n) is not None]
        if not preds:
            raise Unknown("no test of the form data[i] %% %s == 0 in the scanning loop" % scan.mult)
        jobs = [("iteration", False)] + ([("after the loop", True)] if scan.suffix else [])
        results = []
        for what, virtual in jobs:
            paths = B.explore((lambda: _iteration_while(scan)) if scan.form == "while" else (lambda v=virtual: _iteration(scan, v)))
            for p, st, val in paths:
                if st != "ok":
                    raise Unknown("the abstract iteration raises %s" % (val,))
                results.append((what, p, val))
    except Unknown as e:
        raise AnalysisError("swap_multiples run clause undecidable on this tree: %s" % e)
    rep.count("swap_multiples iteration paths", len(results))
    rep.floor("swap_multiples iteration paths", 3)
    rep.ob("C10.R5 predicate-is-multiple-of-current-element", "swap_multiples", True,
           "%d test(s) of the form %s[i] %% %s == 0; every other buffer access is an element move" % (len(preds), scan.data, scan.mult),
           loc=index.loc(m, preds[0]))
    failing = []
    storing = 0
    for what, p, (obl, stores) in results:
        B.set_path(p)
        storing += 1 if stores else 0
        where = "%s path[%s]" % (what, ",".join("%s=%s" % (k, "T" if v else "F") for k, v in p.log) or "-")
        for rule, ok, detail in obl:
            if ok is True:
                rep.ob(rule, "swap_multiples %s" % where, True, detail, loc=index.loc(m, fn))
            else:
                failing.append((rule, where, detail))
    rep.count("swap_multiples storing paths", storing)
    rep.floor("swap_multiples storing paths", 1)
    if failing:
        try:
            w = find_witness(scan)
        except Unknown as e:
            raise AnalysisError("swap_multiples: obligation %s fails (%s) and the loop cannot be replayed: %s" % (failing[0][0], failing[0][2], e))
        if w is None:
            raise AnalysisError("swap_multiples: obligation %s fails on %s (%s) but no pattern up to length 7 breaks the property; "
                                "the function is beyond this proof method -- undecided" % failing[0])
        seen = set()
        for rule, where, detail in failing:
            if (rule, detail) in seen:
                continue
            seen.add((rule, detail))
            rep.ob(rule, "swap_multiples %s" % where, False, "%s; witness: %s" % (detail, w), loc=index.loc(m, fn))
