"""C11 -- server verification hash equals the game client's arithmetic (engine B)."""
from .. import affine as B
from ..affine import Aff
from ..core import AnalysisError
from ..numeval import NumEval

MOD = "eolib.encrypt.server_verification_utils"
THREE_MAX = 253 ** 3
DOC_BOUND = 11092110  # documented largest challenge
PROVABLE_NONNEG = 11092003  # up to here every term is non-negative


def run(rep, index):
    rep.level = "proof"
    rep.explanation = ("server_verification_hash and the reference formula (truncating remainder written through "
                       "floor-mod) are interpreted by engine B over the same path state, so equal sub-terms are the same "
                       "symbols; on every path their difference must normalise to the zero form. Range clauses by "
                       "interval/Fourier-Motzkin bounds.")
    m = index.module(MOD)
    if "server_verification_hash" not in m.functions:
        raise AnalysisError("anchor vanished: %s.server_verification_hash" % MOD)
    ev = NumEval(index)

    def task(lo, hi):
        def t():
            ch = B.fresh("challenge", lo, hi)
            got = ev.call_qual(MOD + ".server_verification_hash", [ch])
            ref = ev.call_qual("refs.verification_hash.hash_ref", [ch])
            return ch, got, ref
        return t

    paths = B.explore(task(0, THREE_MAX - 1))
    rep.count("hash paths", len(paths))
    for p, st, val in paths:
        B.set_path(p)
        inst = "server_verification_hash path[%s]" % _fmt(p)
        if st != "ok":
            rep.ob("C11.R0 total", inst, False, "raises %s" % val.exc_name)
            continue
        ch, got, ref = val
        d = B.norm(Aff.of(got) - Aff.of(ref))
        ok = d.is_const() and d.c == 0
        if not ok:
            ok = B.prove_eq0(d) is True
        lo, hi = B.bounds(ch)
        rep.ob("C11.R1 equals-client-arithmetic", inst, ok,
               "challenge in [%s,%s]: hash - reference = %r" % (lo, hi, d),
               key="C11.R1 | %s.server_verification_hash | hash != truncating-remainder reference" % MOD)
        glo, ghi = B.bounds(Aff.of(got))
        rep.ob("C11.R2 fits-EO-int", inst, ghi is not None and ghi < 253 ** 4, "hash <= %s, EO int limit %d" % (ghi, 253 ** 4))
    rep.floor("hash paths", 2)

    # non-negativity where every term is non-negative (challenge <= 11 092 003)
    paths = B.explore(task(0, PROVABLE_NONNEG))
    rep.count("non-negativity paths", len(paths))
    for p, st, val in paths:
        B.set_path(p)
        inst = "server_verification_hash challenge<=%d path[%s]" % (PROVABLE_NONNEG, _fmt(p))
        if st != "ok":
            rep.ob("C11.R0 total", inst, False, "raises %s" % val.exc_name)
            continue
        ch, got, ref = val
        glo, ghi = B.bounds(Aff.of(got))
        rep.ob("C11.R3 non-negative", inst, glo is not None and glo >= 0, "hash >= %s" % glo)
    rep.undecided.append("hash >= 0 for challenges %d..%d: true only through a coincidence between residues mod 9 and "
                         "the dividend; interval/affine reasoning gives a negative lower bound, so this clause is not decided"
                         % (PROVABLE_NONNEG + 1, DOC_BOUND))
    rep.trusted.append("/verif/sa/refs/verification_hash.py (published formula; C remainder through floor-mod)")
    rep.assumptions.append("Python % with a positive divisor is floor-mod (language semantics)")


def _fmt(p):
    return ",".join("%s=%s" % (k, "T" if v else "F") for k, v in p.log) or "-"
