"""C17 -- the generator rejects ill-formed specifications instead of emitting code (engines C + A)."""
import ast

from ..genabs import lattice
from ..genabs.driver import Session, run_program
from ..genabs.shapes import Namer
from ..genabs.values import Elem
from ..refs import grammar_rules as G
from ._genprops import gen

_ORACLE = {}


def oracle(shape, placement):
    key = (shape.key, placement)
    if key not in _ORACLE:
        decls, body, _ = shape.make(placement)()
        v = G.violations(body, False)
        _ORACLE[key] = ([x for x in v if x[0] != "cond"], [x for x in v if x[0] == "cond"])
    return _ORACLE[key]


def analyse(fam, shape, placement, outcomes):
    out = []
    hard, cond = oracle(shape, placement)
    if not hard:
        return out
    rules = sorted({str(r) for r, _ in hard})
    accepted = [o for o in outcomes if not o.rejected]
    inst = "%r in %s" % (shape.key, placement)
    what = "; ".join("rule %s: %s" % (r, d) for r, d in hard[:3])
    ok = not accepted
    detail = ("ill-formed (%s): rejected on all %d path(s), e.g. %s" % (what, len(outcomes), outcomes[0].exc[:90] if outcomes else "")) if ok else \
        ("ill-formed (%s) but code is emitted on %d of %d path(s) [path %s]" % (what, len(accepted), len(outcomes), accepted[0].path()))
    out.append(("C17.M1 ill-formed-spec-is-rejected", inst, ok, detail,
                "C17.M1 | %s | rule %s%s" % (shape.key[0], "+".join(rules), "" if ok else " accepted")))
    return out


# ---------------------------------------------------------------- file-level rules (1, 13, 16)
def bad_trees():
    """name -> factory of an ill-formed spec tree (each breaks exactly one file-level rule)."""
    def base(nm):
        fam = Elem("enum", {"name": "PacketFamily", "type": "char"}, [Elem("value", {"name": "Fam"}, text="1")])
        act = Elem("enum", {"name": "PacketAction", "type": "char"}, [Elem("value", {"name": "Act"}, text="1")])
        files = {d: Elem("protocol", {}, []) for d in ("", "map", "net", "net/client", "net/server", "pub", "pub/server")}
        files["net"].children += [fam, act]
        files["net/client"].children.append(Elem("packet", {"family": "Fam", "action": "Act"}, [Elem("field", {"name": nm.name("x"), "type": "char"})]))
        return files

    def enum(name, type_="char", values=(("A", "0"), ("B", "1"))):
        return Elem("enum", {"name": name, "type": type_}, [Elem("value", {"name": n}, text=t) for n, t in values])

    def struct(name, nm):
        return Elem("struct", {"name": name}, [Elem("field", {"name": nm.name("f"), "type": "char"})])

    def t(mod):
        def make():
            nm = Namer()
            files = base(nm)
            mod(files, nm)
            return files
        return make
    T = nm0 = None
    trees = {}
    trees["1 enum defined twice in one file"] = t(lambda f, nm: f["map"].children.__iadd__([enum("Dup"), enum("Dup")]))
    trees["1 struct defined twice in one file"] = t(lambda f, nm: f["map"].children.__iadd__([struct("Dup", nm), struct("Dup", nm)]))
    trees["1 enum and struct share a name"] = t(lambda f, nm: f["map"].children.__iadd__([enum("Dup"), struct("Dup", nm)]))
    trees["1 type defined in two files"] = t(lambda f, nm: (f["map"].children.append(enum("Dup")), f["pub"].children.append(enum("Dup"))))
    trees["13 enum ordinal is not an integer"] = t(lambda f, nm: f["map"].children.append(enum("Bad", values=(("A", "x"),))))
    trees["13 enum ordinal defined twice"] = t(lambda f, nm: f["map"].children.append(enum("Bad", values=(("A", "1"), ("B", "1")))))
    trees["13 enum value name defined twice"] = t(lambda f, nm: f["map"].children.append(enum("Bad", values=(("A", "1"), ("A", "2")))))
    # a value called None is emitted under another name (None is a keyword): the redefinition rule speaks about the
    # specification's names and about the emitted ones alike
    trees["13 enum value name None defined twice"] = t(lambda f, nm: f["map"].children.append(enum("Bad", values=(("None", "1"), ("None", "2")))))
    trees["13 enum value names None and None_ collide in the emitted class"] = t(lambda f, nm: f["map"].children.append(enum("Bad", values=(("None", "1"), ("None_", "2")))))
    trees["13 enum value name defined twice, other values in between"] = t(lambda f, nm: f["map"].children.append(enum("Bad", values=(("A", "1"), ("B", "2"), ("A", "3")))))
    trees["13 enum underlying type is not numeric"] = t(lambda f, nm: f["map"].children.append(enum("Bad", type_="string")))
    trees["13 enum underlying type is itself"] = t(lambda f, nm: f["map"].children.append(enum("Bad", type_="Bad")))
    trees["13 enum without underlying type"] = t(lambda f, nm: f["map"].children.append(Elem("enum", {"name": "Bad"}, [Elem("value", {"name": "A"}, text="0")])))
    trees["16 unknown packet family"] = t(lambda f, nm: f["net/server"].children.append(Elem("packet", {"family": "Nope", "action": "Act"}, [])))
    trees["16 unknown packet action"] = t(lambda f, nm: f["net/server"].children.append(Elem("packet", {"family": "Fam", "action": "Nope"}, [])))
    trees["16 packet outside net/client and net/server"] = t(lambda f, nm: f["map"].children.append(Elem("packet", {"family": "Fam", "action": "Act"}, [])))
    trees["16 packet declared twice in a file"] = t(lambda f, nm: f["net/client"].children.append(Elem("packet", {"family": "Fam", "action": "Act"}, [])))
    trees["16 PacketFamily enum missing"] = t(lambda f, nm: f["net"].children.__delitem__(0))
    trees["16 PacketAction enum missing"] = t(lambda f, nm: f["net"].children.__delitem__(1))
    trees["16 PacketFamily is a struct"] = t(lambda f, nm: (f["net"].children.__delitem__(0), f["net"].children.append(struct("PacketFamily", nm))))
    trees["2 struct field of an undeclared type"] = t(lambda f, nm: f["map"].children.append(Elem("struct", {"name": "S"}, [Elem("field", {"name": nm.name("f"), "type": "Nope"})])))
    trees["root element is not <protocol>"] = t(lambda f, nm: f.__setitem__("map", Elem("specification", {}, [])))
    return trees


def file_level(rep, index):
    session = Session(index)
    for name, make in bad_trees().items():
        outs = run_program(session, make, runs=1)
        rep.count("ill-formed trees evaluated")
        accepted = [o for o in outs if not o.rejected]
        rep.ob("C17.F1 ill-formed-tree-is-rejected", name, bool(outs) and not accepted,
               ("rejected on all %d path(s): %s" % (len(outs), outs[0].exc[:100])) if outs and not accepted else
               "generate() completes and writes %d file(s)" % (len(accepted[0].value[0].files) if accepted else 0),
               key="C17.F1 | %s" % name)
    rep.floor("ill-formed trees evaluated", 15)


def propagation(rep, index):
    """Every except clause between a validation error and the caller of generate() re-raises."""
    n = 0
    for modname in index.all_module_names("protocol_code_generator") + ["protocol"]:
        m = index.module(modname)
        for t in [x for x in ast.walk(m.tree) if isinstance(x, ast.Try)]:
            for h in t.handlers:
                n += 1
                names = ast.unparse(h.type) if h.type is not None else "<bare>"
                reraises = any(isinstance(x, ast.Raise) for x in ast.walk(h))
                narrow = names in ("ValueError",) and modname.endswith(("number_utils", "xml_utils"))
                rep.ob("C17.P1 errors-propagate", "%s line %d: except %s" % (modname, h.lineno, names), reraises or narrow,
                       "re-raises" if reraises else ("converts a ValueError of int() into None/an error of its own (the callers validate None)" if narrow
                                                     else "swallows the exception: generation would continue after a validation error"),
                       loc=index.loc(m, h))
    rep.count("except clauses", n)
    rep.floor("except clauses", 2)


def run(rep, index):
    rep.level = "other"
    rep.explanation = ("Must-reject analysis: the generator is interpreted over ill-formed specifications -- every shape of the lattice that an "
                       "independent oracle of the grammar's rules (sa/refs/grammar_rules.py) classifies as ill-formed, in every placement (top "
                       "level, chunked, switch case, and combinations), ordered pairs/triples of instruction groups for the context rules "
                       "(required after optional, after dummy, name reuse, double length reference; through chunked and case scopes), and "
                       "ill-formed spec trees for the file-level rules -- and every evaluation path must end in an exception that propagates "
                       "out of generate() (no except clause on the way swallows it).")
    results, stats = lattice.sweep(index.repo, analyse, rep.tier)
    for rule, inst, ok, detail, key in results:
        rep.ob(rule, inst, ok, detail, key=key)
    for k, v in stats.items():
        rep.count("lattice " + k, v)
    rep.count("ill-formed shapes", len(results))
    rep.floor("ill-formed shapes", 800)
    by_rule = {}
    for rule, inst, ok, detail, key in results:
        for r in key.split("rule ")[1].split(" ")[0].split("+"):
            by_rule[r] = by_rule.get(r, 0) + 1
    rep.note("ill-formed shapes per catalogue rule: %s" % dict(sorted(by_rule.items(), key=lambda kv: kv[0])))
    for r in ("2", "3", "4", "5", "6", "7", "8", "9", "10", "11", "12", "13", "14", "15", "17"):
        rep.ob("C17.M0 catalogue-rule-exercised", "rule %s" % r, by_rule.get(r, 0) > 0, "%d ill-formed shape(s) break rule %s" % (by_rule.get(r, 0), r))
    file_level(rep, index)
    propagation(rep, index)
    rep.trusted.append("/verif/sa/refs/grammar_rules.py (oracle of well-formedness)")
