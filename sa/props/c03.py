"""C03 -- generated deserializers obey the spec on truncated or hostile bytes (engines C + A + B)."""
from ..genabs import lattice, objrules, skel
from ..genabs.wire import Unrecognised
from ._genprops import canon_read, each_class, first_diff, ob
from . import c05, c06, c14


def analyse(fam, shape, placement, outcomes):
    out = []
    for o in outcomes:
        if o.rejected or skel.s_parse(o.value):
            continue
        try:
            for cn, view, scope, cls in each_class(shape, placement, o):
                if view.err:
                    raise Unrecognised(view.err)
                r = canon_read(view.r.tokens)
                d = first_diff(r, scope.read)
                out.append(ob("C03.S1 read-grammar-equals-reading-rules", shape, placement, o, cn, d is None,
                              d or "%d token(s): optional => None unless remaining > 0; loops are range(count) / range(remaining // size) / "
                              "while remaining > 0 as the rules prescribe; next_chunk only where delimiters/breaks are" % len(scope.read), "C03"))
                nf = objrules.none_flow(cls)
                out.append(ob("C03.S2 absent-optionals-do-not-crash-the-constructor", shape, placement, o, cn, not nf,
                              "; ".join(d2 for _, _, d2 in nf[:2]) or "no Optional value reaches tuple()/len() unguarded", "C03"))
                tl = objrules.tail_rules(cn, view, scope)
                out.append(ob("C03.S3 result-built-from-what-was-read", shape, placement, o, cn, not tl,
                              "; ".join(d2 for _, _, d2 in tl[:2]) or "start position saved first; constructor gets exactly the fields read; byte_size = position delta", "C03"))
        except ValueError as e:
            out.append(ob("C03.S0 reference-defined", shape, placement, o, "T", False, str(e), "C03"))
    return out


def run(rep, index):
    rep.level = "other"
    rep.explanation = ("Abstract interpretation of the generator over the shape lattice; the read grammar of every emitted deserialize is "
                       "compared with the reading rules of the reference (loop forms included), Optional values are tracked into the "
                       "constructor (None-flow), and the tail (result construction, byte_size) is checked. The exception inventory of a "
                       "deserialize is then: EoReader getters (C05: only the documented negative-length ValueError), enum construction "
                       "(C14: never raises), int/range/list/constructor. NOT decided: termination for zero-size struct elements "
                       "(degenerate by the property) and value equality beyond the grammar.")
    results, stats = lattice.sweep(index.repo, analyse, rep.tier)
    for rule, inst, ok, detail, key in results:
        rep.ob(rule, inst, ok, detail, key=key)
    for k, v in stats.items():
        rep.count("lattice " + k, v)
    rep.floor("lattice accepted", 300)
    c06.include(rep, "C03.R1 reader-primitives-clip-and-never-raise", "C05", lambda sub: c05.run(sub, index))
    c06.include(rep, "C03.R2 unknown-enum-ordinals-are-preserved", "C14", lambda sub: c14.run(sub, index))
    from . import c04
    roles = c05.discover_roles(rep, index)
    c06.include(rep, "C03.R3 string-reads-strip-padding-at-the-first-0xFF", "C04",
                lambda sub: c04.reader_side(sub, index, roles, c04.writer_side(sub, index)), keep=lambda o: o.rule.startswith(("C04.M1", "C04.R")))
    rep.trusted.append("/verif/sa/refs/wire_semantics.py (reading rules)")
