"""C02 -- generated serializers emit exactly the wire format the XML prescribes (engines C + A)."""
import ast

from ..core import AnalysisError
from ..genabs import lattice, skel
from ..genabs.wire import Unrecognised
from ._genprops import canon_write, each_class, first_diff, ob, strip_guards


def analyse(fam, shape, placement, outcomes):
    out = []
    for o in outcomes:
        if o.rejected:
            continue
        if skel.s_parse(o.value):
            continue  # reported by C18
        try:
            for cn, view, scope, cls in each_class(shape, placement, o):
                if view.err:
                    raise Unrecognised(view.err)
                w = strip_guards(canon_write(view.w.tokens))
                want = strip_guards(scope.write)
                d = first_diff(w, want)
                out.append(ob("C02.S1 write-grammar-equals-reference", shape, placement, o, cn, d is None,
                              d or "%d token(s): document order, encodings, lengths, delimiters, breaks, sanitisation brackets, case arms agree" % len(want), "C02"))
        except ValueError as e:
            out.append(ob("C02.S0 reference-defined", shape, placement, o, "T", False, str(e), "C02"))
    return out


def run(rep, index):
    rep.level = "other"
    rep.explanation = ("Abstract interpretation of the generator over the shape lattice; from every emitted serialize (case classes "
                       "included) the write grammar is extracted by data flow and compared token by token with the reference grammar "
                       "computed from the abstract XML by an independent table of eo-protocol semantics (sa/refs/wire_semantics.py): "
                       "document order, encoding per resolved type incl. bool/enum underlying overrides, length minus offset, hardcoded "
                       "and dummy values with their guard, 0xFF breaks and delimiters (separating vs trailing), padded flag, sanitisation "
                       "brackets exactly around <chunked>, if/elif/else over case values. Explicit boolean defaults are shapes of their "
                       "own. family()/action() and the width tables are checked on the emitter. NOT decided: bytes for concrete values "
                       "(that is this grammar composed with C04/C07/C08/C09).")
    results, stats = lattice.sweep(index.repo, analyse, rep.tier)
    for rule, inst, ok, detail, key in results:
        rep.ob(rule, inst, ok, detail, key=key)
    for k, v in stats.items():
        rep.count("lattice " + k, v)
    rep.floor("lattice accepted", 300)
    packet_identity(rep, index)
    width_tables(rep, index)
    rep.trusted.append("/verif/sa/refs/wire_semantics.py (reference semantics of the instruction grammar)")
    rep.assumptions.append("specs are composed of the instruction shapes of the lattice (DESIGN appendix A); degenerate specs excluded as in the property")


def packet_identity(rep, index):
    """family()/action() of every generated packet return the members named by that packet's own family / action
    attributes: read off the files the abstractly executed generator writes for a tree whose packets all differ in
    (family, action) and carry a uniquely named tag field."""
    from ..genabs.driver import Session, run_program
    from ..genabs.values import Elem

    declared = {"tag0": ("net/client", "Fam", "Second"), "tag1": ("net/client", "Other", "Act"), "tag2": ("net/server", "Other", "Second"),
                "tag3": ("net/server", "Fam", "Act")}

    def tree():
        fam = Elem("enum", {"name": "PacketFamily", "type": "char"}, [Elem("value", {"name": "Fam"}, text="1"), Elem("value", {"name": "Other"}, text="2")])
        act = Elem("enum", {"name": "PacketAction", "type": "char"}, [Elem("value", {"name": "Act"}, text="1"), Elem("value", {"name": "Second"}, text="2")])
        files = {"net": Elem("protocol", {}, [fam, act]), "net/client": Elem("protocol", {}, []), "net/server": Elem("protocol", {}, [])}
        for tag, (d, f, a) in declared.items():
            files[d].children.append(Elem("packet", {"family": f, "action": a}, [Elem("field", {"name": tag, "type": "char"})]))
        return files

    seen = 0
    for o in run_program(Session(index), tree, runs=1):
        if o.rejected:
            raise AnalysisError("C02: the generator rejects the packet reference tree (%s at %s)" % (o.exc, o.exc_site))
        for f in o.value[0].files:
            tags = [t for t in declared if ("_%s" % t) in f["content"]]
            if len(tags) != 1:
                continue
            d, fam_name, act_name = declared[tags[0]]
            try:
                tree_ = ast.parse(f["content"])
            except SyntaxError:
                continue  # C18.Q1's business
            for cdef in [c for c in tree_.body if isinstance(c, ast.ClassDef)]:
                for which, enum, want in (("family", "PacketFamily", fam_name), ("action", "PacketAction", act_name)):
                    fns = [x for x in cdef.body if isinstance(x, ast.FunctionDef) and x.name == which]
                    rets = [ast.unparse(r.value) for fn in fns for r in ast.walk(fn) if isinstance(r, ast.Return) and r.value is not None]
                    seen += 1
                    rep.ob("C02.P1 packet-reports-its-declared-%s" % which, "packet <%s %s> in %s path[%s]" % (fam_name, act_name, d, o.path()),
                           rets == ["%s.%s" % (enum, want)], "%s() returns %s, declared %s=%r" % (which, rets, which, want))
    rep.count("packet identity templates", seen)
    rep.floor("packet identity templates", 2 * len(declared))


def width_tables(rep, index):
    """The type factory's size of every integer type = the width EoWriter/EoReader use for the same type name: the real
    TypeFactory is interpreted (get_type(name).fixed_size), not pattern-matched."""
    from ..genabs.absint import Interp
    from ..genabs.values import Chooser, Unsupported, World
    from ..genabs.values import PyRaise as GPyRaise
    want = {"byte": 1, "char": 1, "short": 2, "three": 3, "int": 4}
    it = Interp(index)
    n = 0
    try:
        tf = it.load_module("protocol_code_generator.type.type_factory")
        for k, v in want.items():
            World.chooser = Chooser([])
            World.trace = {}
            factory = it.call(tf.env["TypeFactory"], [], {})
            t = it.call(it.getattr(factory, "get_type"), [k], {})
            size = it.getattr(t, "fixed_size")
            if World.chooser.log:
                raise AnalysisError("C02: TypeFactory.get_type(%r) forks on concrete input" % k)
            n += 1
            rep.ob("C02.T1 type-table-width", "TypeFactory.get_type(%r).fixed_size" % k, size == v,
                   "fixed_size = %r; the wire width of %s is %d (EoWriter.add_%s / EoReader.get_%s, see C04/C09)" % (size, k, v, k, k))
    except (Unsupported, GPyRaise, KeyError) as e:
        raise AnalysisError("C02: the type factory cannot be interpreted for the integer types (%s: %s)" % (type(e).__name__, e))
    rep.count("integer type table entries", n)
    rep.floor("integer type table entries", 5)
