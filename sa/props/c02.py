"""C02 -- generated serializers emit exactly the wire format the XML prescribes (engines C + A)."""
import ast

from ..core import AnalysisError
from ..genabs import lattice, skel
from ..genabs.wire import Unrecognised
from ._genprops import canon_write, each_class, first_diff, ob, strip_guards


def analyse(fam, shape, placement, outcomes):
    out = []
    for o in outcomes:
        if o.rejected:
            continue
        if skel.s_parse(o.value):
            continue  # reported by C18
        try:
            for cn, view, scope, cls in each_class(shape, placement, o):
                if view.err:
                    raise Unrecognised(view.err)
                w = strip_guards(canon_write(view.w.tokens))
                want = strip_guards(scope.write)
                d = first_diff(w, want)
                out.append(ob("C02.S1 write-grammar-equals-reference", shape, placement, o, cn, d is None,
                              d or "%d token(s): document order, encodings, lengths, delimiters, breaks, sanitisation brackets, case arms agree" % len(want), "C02"))
        except ValueError as e:
            out.append(ob("C02.S0 reference-defined", shape, placement, o, "T", False, str(e), "C02"))
    return out


def run(rep, index):
    rep.level = "other"
    rep.explanation = ("Abstract interpretation of the generator over the shape lattice; from every emitted serialize (case classes "
                       "included) the write grammar is extracted by data flow and compared token by token with the reference grammar "
                       "computed from the abstract XML by an independent table of eo-protocol semantics (sa/refs/wire_semantics.py): "
                       "document order, encoding per resolved type incl. bool/enum underlying overrides, length minus offset, hardcoded "
                       "and dummy values with their guard, 0xFF breaks and delimiters (separating vs trailing), padded flag, sanitisation "
                       "brackets exactly around <chunked>, if/elif/else over case values. Explicit boolean defaults are shapes of their "
                       "own. family()/action() and the width tables are checked on the emitter. NOT decided: bytes for concrete values "
                       "(that is this grammar composed with C04/C07/C08/C09).")
    results, stats = lattice.sweep(index.repo, analyse, rep.tier)
    for rule, inst, ok, detail, key in results:
        rep.ob(rule, inst, ok, detail, key=key)
    for k, v in stats.items():
        rep.count("lattice " + k, v)
    rep.floor("lattice accepted", 300)
    packet_identity(rep, index)
    width_tables(rep, index)
    rep.trusted.append("/verif/sa/refs/wire_semantics.py (reference semantics of the instruction grammar)")
    rep.assumptions.append("specs are composed of the instruction shapes of the lattice (DESIGN appendix A); degenerate specs excluded as in the property")


def packet_identity(rep, index):
    """family()/action() return the member looked up *by the packet's own family / action attribute* in the
    respective enum (provenance rule on _generate_packet)."""
    m, fn, cls = index.function("protocol_code_generator.generate.code_generator.ProtocolCodeGenerator._generate_packet")
    src = {}
    for st in ast.walk(fn):
        if isinstance(st, ast.Assign) and len(st.targets) == 1 and isinstance(st.targets[0], ast.Name):
            src[st.targets[0].id] = st.value

    def origin(name, depth=0):
        """Follow assignments back to (enum type name, attribute name)."""
        v = src.get(name)
        if v is None or depth > 6:
            return None
        s = ast.unparse(v)
        return s
    returns = []
    for n in ast.walk(fn):
        if isinstance(n, ast.JoinedStr):
            lits = "".join(x.value for x in n.values if isinstance(x, ast.Constant))
            if lits.startswith("return PacketFamily.") or lits.startswith("return PacketAction."):
                fv = [x.value for x in n.values if isinstance(x, ast.FormattedValue)]
                returns.append((lits, ast.unparse(fv[0]) if fv else None, n))
    rep.count("packet identity templates", len(returns))
    for lits, expr, node in returns:
        which = "family" if "PacketFamily" in lits else "action"
        # expr is like family_enum_value.python_name ; trace to <type>.get_enum_value_by_name(<attr var>)
        base = expr.split(".")[0] if expr else None
        o1 = origin(base) or ""
        ok = False
        detail = "return template %r filled from %s = %s" % (lits, expr, o1)
        if "get_enum_value_by_name(" in o1:
            typ_var = o1.split(".")[0]
            arg = o1.split("get_enum_value_by_name(")[1].rstrip(")")
            o_typ = origin(typ_var) or ""
            o_arg = origin(arg) or ""
            want_type = "PacketFamily" if which == "family" else "PacketAction"
            ok = ("'%s'" % want_type in o_typ or '"%s"' % want_type in o_typ) and ("'%s'" % which in o_arg or '"%s"' % which in o_arg) \
                and expr.endswith(".python_name")
            detail += "; %s = %s; %s = %s" % (typ_var, o_typ, arg, o_arg)
        rep.ob("C02.P1 packet-reports-its-declared-%s" % which, "_generate_packet %s()" % which, ok, detail, loc=index.loc(m, node))
    rep.floor("packet identity templates", 2)


def width_tables(rep, index):
    """TypeFactory's integer sizes = the widths EoWriter/EoReader use for the same type name."""
    m, fn, cls = index.function("protocol_code_generator.type.type_factory.TypeFactory._create_type")
    sizes = {}
    for n in ast.walk(fn):
        if isinstance(n, ast.If):
            t = n.test
            names = []
            if isinstance(t, ast.Compare) and len(t.ops) == 1 and isinstance(t.left, ast.Name):
                c = t.comparators[0]
                if isinstance(t.ops[0], ast.Eq) and isinstance(c, ast.Constant):
                    names = [c.value]
                elif isinstance(t.ops[0], ast.In) and isinstance(c, (ast.List, ast.Tuple)):
                    names = [e.value for e in c.elts if isinstance(e, ast.Constant)]
            for st in n.body:
                if isinstance(st, ast.Assign) and isinstance(st.value, ast.Call) and ast.unparse(st.value.func) == "IntegerType" and len(st.value.args) == 2 \
                        and isinstance(st.value.args[1], ast.Constant):
                    for nm in names:
                        sizes[nm] = st.value.args[1].value
    want = {"byte": 1, "char": 1, "short": 2, "three": 3, "int": 4}
    rep.count("integer type table entries", len(sizes))
    for k, v in want.items():
        rep.ob("C02.T1 type-table-width", "TypeFactory._create_type %s" % k, sizes.get(k) == v,
               "IntegerType(%r, %r); the wire width of %s is %d (EoWriter.add_%s / EoReader.get_%s, see C04/C09)" % (k, sizes.get(k), k, v, k, k),
               loc=index.loc(m, fn))
    rep.floor("integer type table entries", 5)
