"""C06 -- chunk framing isolates chunks from over- and under-reads (engines A + B).

Decided, on all paths:
  I1  no in-range EO integer encoding contains 0xFF (and the writer writes exactly that encoding)
  I2  with sanitisation on, no string write emits 0xFF from the string's own bytes
  I3  in chunked mode a read never advances past the current chunk's break; surplus reads return 0 / nothing
  I4  next_chunk's result does not depend on how much of the chunk was consumed
  I5  the reader follows the chunked model in general (the C05 refinement, re-run)
The non-interference statement between two runs is then an argument from I1-I5, not machine-checked.
"""
import contextlib
import io

from .. import affine as B
from ..affine import Aff
from ..core import Report
from ..numeval import Frame
from ..reader_model import DataView, ReaderWorld
from ..writer_model import NUMERIC, WriterWorld
from . import c05, c07, c09


def run(rep, index):
    rep.level = "other"
    rep.explanation = ("The property's 'because' clause and the reader-side isolation facts are decided by abstract interpretation "
                       "of writer, codec and reader on all paths (I1-I5 in the module docstring). The two-run non-interference "
                       "relation itself is argued from them, not machine-checked.")
    roles = c05.discover_roles(rep, index)
    integers(rep, index)
    strings(rep, index)
    isolation(rep, index, roles)
    include(rep, "C06.I5 reader-follows-the-chunked-model", "C05", lambda sub: c05.run(sub, index))
    rep.undecided.append("non-interference as a relation between two runs (same later-chunk values whatever was read from earlier "
                         "chunks) is argued from I1-I5, not machine-checked")
    rep.assumptions.append("breaks between chunks are written with add_byte(0xFF) (the generated serializers do; checked by C02)")


def include(rep, rule, name, fn, keep=None):
    sub = Report(name, rep.tier, rep.repo)
    with contextlib.redirect_stdout(io.StringIO()):
        fn(sub)
    obs = [o for o in sub.obs if keep is None or keep(o)]
    bad = [o for o in obs if not o.ok]
    rep.count("%s obligations re-checked" % name, len(obs))
    rep.ob(rule, "%s analysis (%d obligations)" % (name, len(obs)), not bad and len(obs) > 0,
           "; ".join("%s %s -- %s" % (o.rule, o.instance, o.detail) for o in bad[:3])[:600] or "all discharged")


def integers(rep, index):
    include(rep, "C06.I1 integer-encodings-never-contain-0xFF", "C07", lambda sub: c07.run(sub, index),
            keep=lambda o: o.rule.startswith(("C07.R0", "C07.R1", "C07.R5", "C07.R6")))
    include(rep, "C06.I1 writer-emits-exactly-the-encoding", "C09", lambda sub: c09.numeric(sub, index),
            keep=lambda o: o.rule.startswith(("C09.N4", "C09.N5", "C09.N6")) and "add_byte" not in o.instance)


def strings(rep, index):
    include(rep, "C06.I2 sanitised-strings-never-contain-0xFF-under-mode-histories", "C09", lambda sub: c09.histories(sub, index))
    include(rep, "C06.I2 sanitised-strings-never-contain-0xFF", "C09", lambda sub: c09.strings(sub, index),
            keep=lambda o: o.rule.startswith(("C09.S8", "C09.S10", "C09.S11", "C09.S6", "C09.S0")))


def isolation(rep, index, roles):
    # I3: reads in chunked mode stop at the break; surplus reads give 0 / nothing
    READS = [("get_byte", []), ("get_bytes", ["n"]), ("get_char", []), ("get_short", []), ("get_three", []), ("get_int", []),
             ("get_string", []), ("get_encoded_string", []), ("get_fixed_string", ["n"]), ("get_fixed_encoded_string", ["n"])]
    for meth, params in READS:
        def task(meth=meth, params=params):
            w = ReaderWorld(index)
            d, r, P, M, C, Bk = c05.abstract_state(w, roles, mode=True)
            args = [B.fresh("n", 0, None) for _ in params]
            exhausted = B.decide_ge0(P - d.ff(C), "chunk already exhausted (P >= break)")
            st, got = w.call(r, meth, args)
            return w, d, r, P, C, st, got, exhausted
        for p, pst, val in B.explore(task):
            B.set_path(p)
            rep.count("isolation paths")
            inst = "EoReader.%s chunked path[%s]" % (meth, _fmt(p))
            if pst != "ok":
                rep.ob("C06.I3 total", inst, False, "escaped %r" % (getattr(val, "exc_name", val),))
                continue
            w, d, r, P, C, st, got, exhausted = val
            P2 = r.d[roles.pos]
            brk = d.ff(C)
            if st != "ok":
                rep.ob("C06.I3 total", inst, False, "raises %r" % (got,))
                continue
            if exhausted:
                moved = not B.is_zero(Aff.of(P2) - P)
                empty = True
                if isinstance(got, (int, Aff)) and not isinstance(got, bool):
                    empty = B.is_zero(Aff.of(got))
                else:
                    view = got[1] if isinstance(got, tuple) else getattr(got, "view", got)
                    empty = isinstance(view, DataView) and B.is_zero(view.length())
                rep.ob("C06.I3 surplus-read-yields-nothing-and-stays-put", inst, empty and not moved,
                       "position %r -> %r, result %s" % (B.norm(P), B.norm(Aff.of(P2)), "zero/empty" if empty else repr(got)))
            else:
                within = B.prove_ge0(brk - Aff.of(P2)) is True
                rep.ob("C06.I3 read-stops-at-the-break", inst, within,
                       "position' = %r, break at %r: position' <= break %sproved" % (B.norm(Aff.of(P2)), B.norm(brk), "" if within else "NOT "))
    rep.floor("isolation paths", 20)

    # I4: next_chunk lands at a position that does not depend on the position it was called at
    def t_next():
        w = ReaderWorld(index)
        d, r, P, M, C, Bk = c05.abstract_state(w, roles, mode=True)
        st, got = w.call(r, "next_chunk", [])
        return w, d, r, P, C, st
    for p, pst, val in B.explore(t_next):
        B.set_path(p)
        rep.count("next_chunk paths")
        inst = "EoReader.next_chunk path[%s]" % _fmt(p)
        if pst != "ok" or val[5] != "ok":
            rep.ob("C06.I4 next_chunk-total-in-chunked-mode", inst, False, "raises")
            continue
        w, d, r, P, C, st = val
        psym = list(P.t)[0]
        dep = []
        for role in (roles.pos, roles.chunk, roles.brk):
            v = r.d[role]
            if isinstance(v, Aff) and psym in B.norm(v).t:
                dep.append(role)
        rep.ob("C06.I4 next-chunk-independent-of-consumption", inst, not dep,
               "post-state fields depending on the old position: %r" % (dep,) if dep else
               "position', chunk start' and break' are functions of the chunk start only")
        P2 = r.d[roles.pos]
        brk = d.ff(C)
        # lands just past the break, or at the end of data
        ok = B.is_zero(Aff.of(P2) - brk - 1) or (B.is_zero(Aff.of(P2) - d.L) and B.is_zero(brk - d.L))
        rep.ob("C06.I4 next-chunk-lands-just-past-the-break", inst, ok, "position' = %r, break %r, len %r" % (B.norm(Aff.of(P2)), B.norm(brk), B.norm(d.L)))
    rep.floor("next_chunk paths", 2)


def _fmt(p):
    return ",".join("%s=%s" % (k, "T" if v else "F") for k, v in p.log) or "-"
