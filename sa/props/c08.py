"""C08 -- EO string encoding is length-preserving, self-inverse and break-safe (engines B + A)."""
import ast

from .. import affine as B
from ..absbuf import AbsBuf, content_independent, sym_range_builtin
from ..affine import Aff
from ..core import AnalysisError
from ..numeval import NumEval

MOD = "eolib.data.string_encoding_utils"


def _ev(index):
    ev = NumEval(index, natives={"range": sym_range_builtin})
    return ev


def run_on_buffer(index, calls):
    """Explore: fresh abstract buffer, then the given sequence of module functions applied to it."""
    def task():
        ev = _ev(index)
        buf = AbsBuf("bytes")
        ev.abs_bufs = [buf]
        # split the generic value at the property's own boundaries so that every path is
        # entirely inside or entirely outside 0x22..0x7E (and 0x7E is a path of its own)
        if B.decide_ge0(buf.c - 0x22, "c >= 0x22"):
            if B.decide_ge0(Aff(0x7E) - buf.c, "c <= 0x7E"):
                B.decide_eq0(buf.c - 0x7E, "c == 0x7E")
        for fn in calls:
            ev.call_qual(MOD + "." + fn, [buf])
        return buf
    return B.explore(task)


def run(rep, index):
    rep.level = "proof"
    rep.explanation = ("Per-element transfer function of _invert_characters computed by abstract interpretation over a "
                       "buffer of symbolic length with one generic element (all 256 byte values x both flip states at "
                       "once); compositions decode(encode(.)) and encode(decode(.)) are evaluated on the same abstract "
                       "buffer, so reversal, position and parity are part of the computation, not of a prose argument.")
    m = index.module(MOD)
    for fn in ("encode_string", "decode_string"):
        if fn not in m.functions:
            raise AnalysisError("anchor vanished: %s.%s" % (MOD, fn))

    # ---- R1: content independence of every loop-carried variable of the per-element loops, in every function of the
    # module that takes a buffer (the private helpers are found by shape, not by name)
    for fname, fn in sorted(m.functions.items()):
        if not fn.args.args or not any(isinstance(n, ast.For) for n in ast.walk(fn)):
            continue
        bufp = fn.args.args[0].arg
        loops = [n for n in ast.walk(fn) if isinstance(n, ast.For)]
        for lp in loops:
            assigned = set()
            for n in ast.walk(lp):
                if isinstance(n, ast.Name) and isinstance(n.ctx, ast.Store):
                    assigned.add(n.id)
            pre = set()
            for st in fn.body:
                if st is lp:
                    break
                for n in ast.walk(st):
                    if isinstance(n, ast.Name) and isinstance(n.ctx, ast.Store):
                        pre.add(n.id)
            tgt = {n.id for n in ast.walk(lp.target) if isinstance(n, ast.Name)}
            for var in sorted((assigned & pre) - tgt):
                ok, why = content_independent(fn, bufp, var)
                rep.count("carried variables")
                rep.ob("C08.R1 schedule-independent-of-contents", "%s.%s loop-carried %s" % (MOD, fname, var), ok,
                       why or "no definition of %s reads %s[...] or is control-dependent on it" % (var, bufp),
                       loc=index.loc(m, lp))
    # (no floor: a loop without carried state has nothing that could depend on the contents)

    # ---- R2-R4: the transfer function of one inversion pass (a lemma about the private helper, when it exists under
    # its present name; the property itself is R5/R6 on the public functions below)
    paths = run_on_buffer(index, ["_invert_characters"]) if "_invert_characters" in m.functions else []
    rep.count("invert paths", len(paths))
    for p, st, buf in paths:
        B.set_path(p)
        inst = "_invert_characters path[%s]" % _fmt(p)
        if st != "ok":
            rep.ob("C08.R0 total", inst, False, "raises %s" % buf.exc_name)
            continue
        _common(rep, inst, buf, reversed_=False)
        clo, chi = B.bounds(buf.c)
        vlo, vhi = B.bounds(buf.val)
        inside = clo >= 0x22 and chi <= 0x7E
        outside = chi < 0x22 or clo > 0x7E
        if not (inside or outside):
            rep.ob("C08.R2 range-split", inst, False, "path does not decide whether c is in 0x22..0x7E: c in [%s,%s]" % (clo, chi))
            continue
        if outside:
            d = B.norm(Aff.of(buf.val) - buf.c)
            rep.ob("C08.R2 untouched-outside-0x22..0x7E", inst, d.is_const() and d.c == 0,
                   "c in [%s,%s]: out - c = %r" % (clo, chi, d))
        else:
            rep.ob("C08.R3 image-within-0x21..0x7D", inst, vlo >= 0x21 and vhi <= 0x7D,
                   "c in [%s,%s] -> out in [%s,%s]" % (clo, chi, vlo, vhi))
    if "_invert_characters" in m.functions:
        rep.floor("invert paths", 6)

    # ---- R5/R6: encode and decode reverse the order; both round trips are the identity except at 0x7E
    for name, calls, final_rev in (("encode_string", ["encode_string"], True), ("decode_string", ["decode_string"], True),
                                   ("decode(encode(.))", ["encode_string", "decode_string"], False),
                                   ("encode(decode(.))", ["decode_string", "encode_string"], False)):
        paths = run_on_buffer(index, calls)
        rep.count("composition paths", len(paths))
        for p, st, buf in paths:
            B.set_path(p)
            inst = "%s path[%s]" % (name, _fmt(p))
            if st != "ok":
                rep.ob("C08.R0 total", inst, False, "raises %s" % buf.exc_name)
                continue
            _common(rep, inst, buf, reversed_=final_rev)
            clo, chi = B.bounds(buf.c)
            vlo, vhi = B.bounds(buf.val)
            if len(calls) == 1:
                # a single direction: range facts of the whole function (never creates/destroys 0x00 or 0xFF)
                if chi < 0x22 or clo > 0x7E:
                    d = B.norm(Aff.of(buf.val) - buf.c)
                    rep.ob("C08.R2 untouched-outside-0x22..0x7E", inst, d.is_const() and d.c == 0, "out - c = %r" % d)
                elif clo >= 0x22 and chi <= 0x7E:
                    rep.ob("C08.R3 image-within-0x21..0x7D", inst, vlo >= 0x21 and vhi <= 0x7D,
                           "c in [%s,%s] -> out in [%s,%s]" % (clo, chi, vlo, vhi))
                else:
                    rep.ob("C08.R2 range-split", inst, False, "undecided range for c")
            else:
                d = B.norm(Aff.of(buf.val) - buf.c)
                is_7e = clo == chi == 0x7E
                if is_7e:
                    rep.count("0x7E paths (excluded by the property)")
                    continue
                rep.ob("C08.R6 round-trip-identity", inst, d.is_const() and d.c == 0,
                       "c in [%s,%s]: round trip - c = %r" % (clo, chi, d))
    rep.floor("composition paths", 20)
    rep.assumptions += ["buffer elements are integers in [0,255] (bytearray)",
                        "bytearray.reverse() reverses in place; index assignment keeps the length"]


def _common(rep, inst, buf, reversed_):
    rs = buf.resized()
    rep.ob("C08.R4 length-preserved", inst, not rs, "resizing operations: %r" % (rs,) if rs else "only index stores and reverse()")
    foreign = [e for e in buf.events if e[0] in ("load-foreign",) or (e[0] == "store" and e[1] == "foreign")]
    rep.ob("C08.R4 element-local", inst, not foreign,
           "iteration touches other indices: %r" % (foreign,) if foreign else "each iteration reads and writes only its own index")
    want = (buf.L - 1 - buf.p) if reversed_ else buf.p
    d = B.norm(Aff.of(buf.idx) - want)
    rep.ob("C08.R5 position", inst, d.is_const() and d.c == 0,
           "element ends at index %r, expected %s" % (B.norm(Aff.of(buf.idx)), "len-1-p (reversed)" if reversed_ else "p"))


def _fmt(p):
    return ",".join("%s=%s" % (k, "T" if v else "F") for k, v in p.log) or "-"
