"""C16 -- invalid objects are refused, never silently mis-serialized (engines C + B)."""
from ..genabs import lattice, objrules, skel
from ..genabs.wire import Unrecognised
from ._genprops import canon_write, each_class, first_diff, ob, only_guards, strip_guards
from . import c06, c09


def analyse(fam, shape, placement, outcomes):
    out = []
    for o in outcomes:
        if o.rejected or skel.s_parse(o.value):
            continue
        try:
            for cn, view, scope, cls in each_class(shape, placement, o):
                if view.err:
                    raise Unrecognised(view.err)
                w = canon_write(view.w.tokens)
                got, want = only_guards(w), only_guards(scope.write)
                d = first_diff(got, want)
                out.append(ob("C16.S1 guards-equal-reference", shape, placement, o, cn, d is None,
                              d or "%d guard(s) dominate the writes they protect: None guards, length guards (!= exact, > padded / "
                              "length-field bound = max(type)+offset), case-data guards" % len(want), "C16"))
                # every guard raises SerializationError (the extractor only recognises guards whose body is that raise)
                cs = objrules.ctor_store_rules(cn, cls)
                out.append(ob("C16.S2 constructor-stores-its-arguments-unchanged", shape, placement, o, cn, not cs,
                              "; ".join(x[2] for x in cs[:2]) or "every field holds the parameter itself (arrays: its tuple); None stays None", "C16"))
        except ValueError as e:
            out.append(ob("C16.S0 reference-defined", shape, placement, o, "T", False, str(e), "C16"))
    return out


def run(rep, index):
    rep.level = "other"
    rep.explanation = ("Abstract interpretation of the generator over the shape lattice; the guards of every emitted serialize are extracted "
                       "(with the position of the write they dominate) and compared with the reference guard table: named required "
                       "non-hardcoded field => `is None` guard; literal length => `!=` (padded: `>`); length-field reference => "
                       "`> max(type)+offset`; case with body => isinstance guard, empty case => `is not None` guard; each raising "
                       "SerializationError. Integer range errors are the writer's (C09 numeric analysis, re-run). NOT decided: validity "
                       "of array elements beyond what the writer checks.")
    results, stats = lattice.sweep(index.repo, analyse, rep.tier)
    for rule, inst, ok, detail, key in results:
        rep.ob(rule, inst, ok, detail, key=key)
    for k, v in stats.items():
        rep.count("lattice " + k, v)
    rep.floor("lattice accepted", 300)
    c06.include(rep, "C16.W1 writer-rejects-out-of-range-integers", "C09", lambda sub: c09.numeric(sub, index))
    c06.include(rep, "C16.W2 writer-rejects-bad-string-lengths", "C09", lambda sub: c09.strings(sub, index),
                keep=lambda o: o.rule.startswith(("C09.S1", "C09.S2", "C09.S3", "C09.S4")))
    rep.trusted.append("/verif/sa/refs/wire_semantics.py (guard table)")
