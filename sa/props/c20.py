"""C20 -- the public namespace resolves every documented name to the right object (engine D)."""
import ast
import os

from ..core import AnalysisError
from ..importsim import Def, Mod, SimImportError, World

DIRS = ["", "map", "net", "net/client", "net/server", "pub", "pub/server"]
GEN = "eolib.protocol._generated"


def snake(name):
    out = ""
    for i, c in enumerate(name):
        if i > 0 and c.isupper() and ((i + 1 < len(name) and not name[i + 1].isupper()) or name[i - 1].islower()):
            out += "_"
        out += c.lower()
    return out


_REL = {"fn": None}


def relativize(absolute, package):
    """The import line's module path as the generator renders it: Import.relativize is interpreted from the
    repository's source (engine C evaluator on concrete paths); the mirror below is only the fallback used
    before an index is available."""
    if _REL["fn"] is not None:
        return _REL["fn"](absolute, package)
    if not absolute.startswith("eolib."):
        return absolute
    a, b = absolute.split("."), package.split(".")
    for _ in range(min(len(a), len(b))):
        if a[0] == b[0]:
            a.pop(0)
            b.pop(0)
        else:
            break
    return "." * (len(b) + 1) + ".".join(a)


def tag(d):
    return "".join(p.capitalize() for p in d.split("/")) if d else "Root"


def pkg_of(d):
    return GEN + ("." + d.replace("/", ".") if d else "")


PACKET_DIRS = ("net/client", "net/server")


def spec_tree(pairs, packet_refs, P="G"):
    """A valid spec tree: one enum per documented directory, PacketFamily/PacketAction in net, one struct
    in d1 referencing the enum of d2 for each (d1, d2) in `pairs`, and one packet per packet directory
    referencing the enums of `packet_refs`.  Type names are fresh identifiers that collide with nothing."""
    types = {}
    for d in DIRS:
        types[P + "Enum" + tag(d)] = (d, "enum", [])
    types["PacketFamily"] = ("net", "enum", [])
    types["PacketAction"] = ("net", "enum", [])
    for d1, d2 in pairs:
        types["%sStruct%sUses%s" % (P, tag(d1), tag(d2))] = (d1, "struct", [P + "Enum" + tag(d2)])
    for side, suffix in (("net/client", "ClientPacket"), ("net/server", "ServerPacket")):
        types["%sFam%sAct%s" % (P, P, suffix)] = (side, "packet", [P + "Enum" + tag(d) for d in packet_refs])
    return types


def render(types):
    """The package the generator writes for a spec tree (module = import lines + one class)."""
    modules = {}
    per_dir = {d: [] for d in DIRS}
    for name, (d, kind, refs) in types.items():
        pkg = pkg_of(d)
        imports = []
        if kind == "enum":
            imports += [("enum", "IntEnum"), ("eolib.protocol.protocol_enum_meta", "ProtocolEnumMeta")]
        else:
            imports += [("eolib.data.eo_writer", "EoWriter"), ("eolib.data.eo_reader", "EoReader"),
                        ("eolib.protocol.serialization_error", "SerializationError"), ("typing", "Optional")]
            for r in refs:
                imports.append((pkg_of(types[r][0]) + "." + snake(r), r))
        if kind == "packet":
            imports += [("eolib.protocol.net.packet", "Packet"), (GEN + ".net.packet_family", "PacketFamily"),
                        (GEN + ".net.packet_action", "PacketAction")]
        # CodeBlock.to_string: relativized import strings, sorted in reverse
        lines = sorted({"from %s import %s" % (relativize(mod, pkg), nm) for mod, nm in imports}, reverse=True)
        modules[pkg + "." + snake(name)] = ("mod", "\n".join(lines) + "\n\nclass %s:\n    pass\n" % name)
        per_dir[d].append((kind, name))
    order = {"enum": 0, "struct": 1, "packet": 2}
    for d in DIRS:
        pkg = pkg_of(d)
        names = [n for k, n in sorted(per_dir[d], key=lambda kn: order[kn[0]])]
        lines = sorted({"from %s import *" % relativize(pkg + "." + snake(n), pkg) for n in names}, reverse=True)
        modules[pkg] = ("pkg", '"""generated"""\n' + "\n".join(lines) + "\n")
    return modules


def tree_family():
    """Representative trees: no cross reference; each single cross-directory reference direction; every
    reference direction that does not point into a packet directory from outside it, all at once; packets
    referencing every directory."""
    fam = []
    # generated __init__ files star-import their modules in reverse alphabetical order: names that sort before and
    # after packet_family / packet_action (and before/after each other) see different initialisation orders
    for P in ("G", "Z"):
        fam += _tree_family(P)
    # type names become module and attribute names: a type whose module is called like a documented package or module
    # (Data -> data, Packet -> packet, ...) competes with it for the same attribute
    for mod in COLLIDING:
        for d in ("", "map", "net", "net/client", "pub", "pub/server"):
            types = spec_tree([(x, x) for x in DIRS], [""], "G")
            name = mod.capitalize()
            types[name] = (d, "struct", [])
            fam.append(("a struct named %s declared in %s" % (name, d or "<root>"), types, "G"))
    return fam


COLLIDING = ("data", "encrypt", "packet", "protocol", "map", "net", "pub", "client", "server")


def _tree_family(P):
    def spec_tree_(pairs, refs):
        return spec_tree(pairs, refs, P)
    fam = [("no cross-directory reference", spec_tree_([(d, d) for d in DIRS], [""]), P)]
    inward = []
    safe = []
    for d1 in DIRS:
        for d2 in DIRS:
            if d1 == d2:
                continue
            into_packets = d2 in PACKET_DIRS and d1 != d2
            (inward if into_packets else safe).append((d1, d2))
    for d1, d2 in safe:
        fam.append(("struct in %s uses a type of %s" % (d1 or "<root>", d2 or "<root>"), spec_tree_([(d1, d2)], [""]), P))
    fam.append(("every reference direction except into a packet directory, packets use every directory",
                spec_tree_(safe + [(d, d) for d in DIRS], list(DIRS)), P))
    for d1, d2 in inward:
        fam.append(("struct in %s uses a type of %s (a packet directory)" % (d1 or "<root>", d2), spec_tree_([(d1, d2)], [""]), P))
    return fam


def run(rep, index):
    rep.level = "other"
    rep.explanation = ("Import-binding simulation (engine D): Python's import semantics are executed abstractly over the ASTs of the "
                       "static packages and of a representative generated package (every documented directory, every direction of "
                       "cross-directory reference, symbolic type names), once per possible first import; the final name -> object "
                       "maps are compared with the documented layout.")
    src_root = os.path.join(index.repo, "src")
    emitter_rules(rep, index)
    _REL["fn"] = interpreted_relativize(rep, index)
    static = [m for m in index.all_module_names("eolib") if not m.startswith(GEN)]
    if len(static) < 20:
        raise AnalysisError("only %d static eolib modules found" % len(static))
    documented = [m for m in static if not any(part.startswith("_") for part in m.split("."))]
    rep.count("documented module paths", len(documented))
    family = tree_family()
    rep.count("spec trees", len(family))
    for tname, types, prefix in family:
        gen_modules = render(types)

        def provider(name, gen_modules=gen_modules):
            if name in gen_modules:
                return gen_modules[name]
            if name.startswith(GEN):
                return None
            p = os.path.join(src_root, *name.split("."))
            if os.path.isfile(os.path.join(p, "__init__.py")):
                return ("pkg", open(os.path.join(p, "__init__.py"), encoding="utf-8").read())
            if os.path.isfile(p + ".py"):
                return ("mod", open(p + ".py", encoding="utf-8").read())
            return None

        # the big tree is explored from every possible first import; single-reference trees from a spread
        big = tname.startswith(("every reference", "no cross"))
        entries = (static + sorted(gen_modules)) if big else (["eolib", "eolib.protocol.net.packet", "eolib.data.eo_reader"] + sorted(
            k for k in gen_modules if "_struct" in k or "packet" in k or k.rsplit(".", 1)[-1] in COLLIDING))
        rep.count("first imports explored", len(entries))
        for entry in entries:
            w = World(provider)
            where = "[tree: %s; type names %s...; first import %s]" % (tname, prefix, entry)
            try:
                w.import_module(entry)
                for d in documented:  # a user may then import any documented module explicitly
                    w.import_module(d)
            except SimImportError as e:
                rep.ob("C20.R0 import-succeeds", where, False, str(e), key="C20.R0 | tree: %s" % tname)
                continue
            rep.ob("C20.R0 import-succeeds", where, True, "%d modules initialised" % len(w.mods))
            for d in documented:
                got = w.attr_path(d)
                rep.ob("C20.R1 module-path-resolves-to-the-module", "%s %s" % (d, where), got is w.mods.get(d),
                       "attribute access gives %r, the import system has %r" % (got, w.mods.get(d)),
                       key="C20.R1 | %s%s" % (d, "" if big else " | tree: " + tname))
            top = w.mods["eolib"].ns
            if big:
                for d in documented:
                    m = w.mods[d]
                    if m.is_pkg:
                        continue
                    allv = m.ns.get("__all__")
                    pub = allv if isinstance(allv, list) else [k for k, v in m.ns.items() if isinstance(v, Def) and v.mod == d and not k.startswith("_")]
                    home = w.mods[d.rsplit(".", 1)[0]].ns
                    for k in pub:
                        obj = m.ns.get(k)
                        ok = obj is not None and top.get(k) is obj and home.get(k) is obj
                        rep.ob("C20.R2 public-name-is-one-object", "%s.%s %s" % (d, k, where), ok,
                               "defined %r; eolib.%s = %r; %s.%s = %r" % (obj, k, top.get(k), d.rsplit(".", 1)[0], k, home.get(k)),
                               key="C20.R2 | %s.%s" % (d, k))
            for name, (d, kind, refs) in types.items():
                defmod = pkg_of(d) + "." + snake(name)
                obj = w.mods[defmod].ns.get(name) if defmod in w.mods else None
                home_name = "eolib.protocol" + ("." + d.replace("/", ".") if d else "")
                home = w.mods[home_name].ns if home_name in w.mods else {}
                ok = obj is not None and top.get(name) is obj and home.get(name) is obj
                rep.ob("C20.R3 generated-class-is-one-object", "%s (%s in %s) %s" % (name, kind, d or "<root>", where), ok,
                       "defined %r; eolib.%s = %r; %s.%s = %r" % (obj, name, top.get(name), home_name, name, home.get(name)),
                       key="C20.R3 | %s class of %s | tree: %s" % (kind, d or "<root>", tname))
    rep.floor("first imports explored", 100)
    rep.floor("documented module paths", 20)
    rep.floor("spec trees", 30)
    rep.assumptions += ["valid spec trees have a protocol.xml in each of the seven documented directories and PacketFamily/PacketAction in net",
                        "besides fresh type names (two families, sorting before/after packet_family) the trees cover one struct named like each "
                        "documented package or module (Data, Encrypt, Packet, Protocol, Map, Net, Pub, Client, Server) in six directories; other "
                        "collisions (with class or function names of the library) are not enumerated",
                        "generated modules consist of their import lines and one class (checked against the emitter by the C18 analysis)"]


def interpreted_relativize(rep, index):
    """Import.relativize from /repo, interpreted (never imported); results are memoised."""
    from ..genabs.absint import Interp
    from ..genabs.values import World, Chooser, PyRaise
    it = Interp(index)
    cb = it.load_module("protocol_code_generator.generate.code_block")
    memo = {}

    def rel(absolute, package):
        k = (absolute, package)
        if k not in memo:
            World.chooser = Chooser([])
            World.trace = {}
            imp = it.call(cb.env["Import"], ["X", absolute], {})
            line = it.call(it.getattr(imp, "relativize"), [package], {})
            if World.chooser.log:
                raise AnalysisError("Import.relativize forks on concrete paths")
            if not (isinstance(line, str) and line.startswith("from ") and line.endswith(" import X")):
                raise AnalysisError("Import.relativize returned %r" % (line,))
            memo[k] = line[len("from "):-len(" import X")]
        return memo[k]
    # sanity: the two documented shapes of import
    rep.ob("C20.G0 relativize-interpreted", "Import.relativize", rel("enum", "eolib.protocol._generated.net") == "enum",
           "non-eolib module paths are left absolute: %r" % rel("enum", "eolib.protocol._generated.net"))
    return rel


def emitter_rules(rep, index):
    """The generated __init__ of every protocol file's package star-imports every file written for it, and is written
    also for a protocol file that declares nothing: read off the files the abstractly executed generator writes."""
    from ..genabs.driver import Session, run_program
    from ..genabs.values import Elem
    from .c18 import package_facts, program_tree

    def tree_with_an_empty_file():
        t = program_tree()
        t["pub/server"] = Elem("protocol", {}, [])
        for d, e in t.items():
            # nothing may refer to what pub/server no longer declares
            for kid in e.children:
                if kid.tag in ("struct", "packet"):
                    kid.children[:] = [c for c in kid.children if "PubServer" not in str(c.attrs.get("type", ""))]
        return t

    n = 0
    for label, tree in (("the 7-directory tree", program_tree), ("the same tree with an empty pub/server file", tree_with_an_empty_file)):
        for o in run_program(Session(index), tree, runs=1):
            n += 1
            inst = "generate() over %s path[%s]" % (label, o.path())
            if o.rejected:
                raise AnalysisError("C20: the generator rejects %s (%s at %s)" % (label, o.exc, o.exc_site))
            files = {f["path"]: f["content"] for f in o.value[0].files}
            f = package_facts(files)
            rep.ob("C20.G1 generated-init-star-imports-every-written-file", inst, not f["not_exported"] and not f["syntax"],
                   "; ".join(f["not_exported"][:3]) or "every module written into a package is star-imported by that package's __init__")
            want = {"", "map", "net", "net/client", "net/server", "pub", "pub/server"}
            have = {m.rsplit("/", 1)[0] if "/" in m else "" for m in f["mods"] if m.endswith("__init__.py")}
            rep.ob("C20.G2 package-init-written-for-every-protocol-file", inst, want <= have,
                   "no __init__.py written for: %s" % sorted(want - have) if want - have else "an __init__.py is written for each of the %d protocol files" % len(want))
    rep.count("emitter program runs", n)
    rep.floor("emitter program runs", 2)


