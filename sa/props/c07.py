"""C07 -- EO number codec is a wire-safe bijection on its whole range (engine B, fully)."""
from .. import affine as B
from ..affine import Aff
from ..core import AnalysisError
from ..numeval import NumEval, PyRaise

MOD = "eolib.data.number_encoding_utils"
LIM = "eolib.data.eo_numeric_limits"


def limits(rep, index):
    lim = index.module(LIM)
    want = {"CHAR_MAX": 253, "SHORT_MAX": 253 ** 2, "THREE_MAX": 253 ** 3, "INT_MAX": 253 ** 4}
    for k, v in want.items():
        got = lim.consts.get(k)
        rep.ob("C07.R0 limit-table", "%s.%s" % (LIM, k), got == v, "folded value %r, documented %r" % (got, v),
               loc=lim.rel(index.repo))
    return want


def run(rep, index):
    rep.level = "proof"
    rep.explanation = ("Engine B (affine abstract interpretation with div/mod identities, Fourier-Motzkin entailment) "
                       "interprets encode_number/decode_number from their syntax trees for the whole input interval: "
                       "byte ranges, filler bytes, decode == positional reference formula for every byte string of "
                       "length 0..6, and decode(encode(n)[:k]) - n == 0 as an identity of affine forms on every path.")
    want = limits(rep, index)
    m = index.module(MOD)
    for fn in ("encode_number", "decode_number"):
        if fn not in m.functions:
            raise AnalysisError("anchor vanished: %s.%s" % (MOD, fn))
    ev = NumEval(index)
    INT_MAX = want["INT_MAX"]

    # ---- R1/R2/R5: encode on the whole range: length 4, bytes in [1,254], never raises
    def enc_task(hi, k=4):
        def task():
            n = B.fresh("n", 0, hi - 1)
            enc = ev.call_qual(MOD + ".encode_number", [n])
            dec = None
            if isinstance(enc, list) and len(enc) == 4:
                # the composition forks on its own tests, so it belongs inside the explored task
                dec = ev.call_qual(MOD + ".decode_number", [list(enc[:k])])
            return n, enc, dec
        return task

    paths = B.explore(enc_task(INT_MAX))
    rep.count("encode paths", len(paths))
    for p, st, val in paths:
        B.set_path(p)
        inst = "encode_number path[%s]" % _fmt(p)
        if st != "ok":
            rep.ob("C07.R5 encode-total", inst, False, "raises %s for an in-range number" % val.exc_name)
            continue
        n, enc, dec = val
        ok = isinstance(enc, list) and len(enc) == 4
        rep.ob("C07.R6 encode-length", inst, ok, "returns %r" % (enc,))
        if not ok:
            continue
        for i, b in enumerate(enc):
            lo, hi = B.bounds(Aff.of(b))
            rep.ob("C07.R1 encode-byte-range", "%s byte %d" % (inst, i),
                   lo is not None and hi is not None and lo >= 1 and hi <= 254,
                   "byte in [%s, %s], required within [1, 254] (no 0x00, no 0xFF)" % (lo, hi))
        # R3: decode(encode(n)) == n
        d = B.norm(Aff.of(dec) - n)
        rep.ob("C07.R3 decode-of-encode", inst, d.is_const() and d.c == 0, "decode(encode(n)) - n = %r" % d)
    rep.floor("encode paths", 4)

    # ---- R2/R3 prefix: for n < 253^k the first k bytes decode to n and the rest is filler
    for k in (1, 2, 3):
        paths = B.explore(enc_task(253 ** k, k))
        rep.count("encode prefix paths", len(paths))
        for p, st, val in paths:
            B.set_path(p)
            inst = "encode_number n<253^%d path[%s]" % (k, _fmt(p))
            if st != "ok":
                rep.ob("C07.R5 encode-total", inst, False, "raises %s" % val.exc_name)
                continue
            n, enc, dec = val
            if not (isinstance(enc, list) and len(enc) == 4):
                rep.ob("C07.R6 encode-length", inst, False, "returns %r" % (enc,))
                continue
            for i in range(k, 4):
                b = B.norm(Aff.of(enc[i]))
                rep.ob("C07.R2 filler", "%s byte %d" % (inst, i), b.is_const() and b.c == 0xFE, "byte = %r, required 0xFE" % b)
            d = B.norm(Aff.of(dec) - n)
            rep.ob("C07.R3 decode-of-prefix", inst, d.is_const() and d.c == 0,
                   "decode(encode(n)[:%d]) - n = %r" % (k, d))

    # ---- R4: decode == positional reference formula, for every byte string of length 0..6
    for length in range(0, 7):
        def dec_task(length=length):
            bs = [B.fresh("b%d" % i, 0, 255) for i in range(length)]
            got = ev.call_qual(MOD + ".decode_number", [list(bs)])
            ref = ev.call_qual("refs.number_codec.decode_ref", [list(bs)])
            return got, ref
        paths = B.explore(dec_task)
        rep.count("decode paths", len(paths))
        for p, st, val in paths:
            B.set_path(p)
            inst = "decode_number len=%d path[%s]" % (length, _fmt(p))
            if st != "ok":
                rep.ob("C07.R5 decode-total", inst, False, "raises %s" % val.exc_name)
                continue
            got, ref = val
            d = B.norm(Aff.of(got) - Aff.of(ref))
            rep.ob("C07.R4 decode-reference", inst, d.is_const() and d.c == 0, "decode - reference = %r" % d)
    rep.floor("decode paths", 20)
    rep.assumptions += ["bytes()/indexing/slicing of a 4-element list behave as in CPython",
                        "inputs of decode_number are sequences of integers in [0, 255]"]
    rep.trusted.append("/verif/sa/refs/number_codec.py (documented positional formula)")


def _fmt(p):
    return ",".join("%s=%s" % (k, "T" if v else "F") for k, v in p.log) or "-"
