"""Engine B, part 4: segmented abstract byte buffers.

A SegBuf is a bytearray described as a sequence of segments, each of symbolic length:
  ("prior", W)            unknown earlier contents (e.g. what a writer already holds)
  ("abs", AbsBuf)         an abstract buffer followed through its generic element
  ("const", value, n)     n copies of one byte value
  ("bytes", [forms])      a concrete-length list of byte forms
Slices are supported at segment boundaries (boundaries proved by the affine domain).
Every mutation is logged, so "contents unchanged on a raise" and "appends exactly n bytes"
are read off the event log.
"""
from . import affine as B
from .absbuf import AbsBuf, DerivedBuf
from .affine import Aff
from .core import AnalysisError
from .numeval import Native, PyRaise


class ConstRun:
    """[v] * n with symbolic n."""

    def __init__(self, value, n):
        self.value, self.n = value, n

    def length(self):
        return self.n


class AbsStr:
    """An arbitrary str of symbolic length; its contents are only ever encoded."""

    def __init__(self, name="string"):
        self.S = B.fresh("len(%s)" % name, 0, None)

    def length(self):
        return self.S


def seg_len(seg):
    if seg[0] == "prior":
        return seg[1]
    if seg[0] == "abs":
        return seg[1].L
    if seg[0] == "const":
        return seg[2]
    if seg[0] == "bytes":
        return len(seg[1])
    raise AnalysisError("segment kind %r" % (seg[0],))


class SegBuf:
    def __init__(self, segs=None, name="buf"):
        self.segs = list(segs or [])
        self.name = name
        self.events = []  # ("append", seg) / ("replace", ...) / ("resize", what) / ("mutate-prior",)

    def length(self):
        total = Aff(0)
        for s in self.segs:
            total = total + Aff.of(seg_len(s))
        n = B.norm(total)
        return int(n.c) if n.is_const() else total

    def copy(self):
        return SegBuf(self.segs, self.name)

    def truth(self, fr, node):
        n = self.length()
        if isinstance(n, int):
            return n != 0
        return not B.decide_eq0(n, "buffer is empty")

    def abstract_isinstance(self, c):
        return getattr(c, "name", None) in ("bytearray", "bytes", "object")

    # ---- conversions
    @staticmethod
    def segments_of(v):
        if isinstance(v, SegBuf):
            return list(v.segs)
        if isinstance(v, AbsBuf):
            return [("abs", v)]
        if isinstance(v, DerivedBuf):
            raise AnalysisError("engine B: derived buffer used as a segment")
        if isinstance(v, ConstRun):
            return [("const", v.value, v.n)]
        if isinstance(v, (list, tuple)):
            return [("bytes", list(v))] if len(v) else []
        raise AnalysisError("engine B: cannot turn %r into buffer segments" % (v,))

    # ---- boundary arithmetic
    def _boundary(self, pos):
        """Index i such that the prefix of i segments has length `pos` (proved), else None."""
        if pos is None:
            return None
        acc = Aff(0)
        if B.prove_eq0(Aff.of(pos) - acc) is True:
            return 0
        for i, s in enumerate(self.segs):
            acc = acc + Aff.of(seg_len(s))
            if B.prove_eq0(Aff.of(pos) - acc) is True:
                return i + 1
        return None

    def _ensure_boundary(self, pos):
        """Like _boundary, but splits a constant/prior segment when `pos` provably falls inside it."""
        i = self._boundary(pos)
        if i is not None or pos is None:
            return i
        acc = Aff(0)
        for j, s in enumerate(self.segs):
            n = Aff.of(seg_len(s))
            inside = B.prove_ge0(Aff.of(pos) - acc) is True and B.prove_ge0(acc + n - Aff.of(pos)) is True
            if inside and s[0] in ("const", "prior"):
                left = Aff.of(pos) - acc
                right = acc + n - Aff.of(pos)
                if s[0] == "const":
                    self.segs[j:j + 1] = [("const", s[1], left), ("const", s[1], right)]
                else:
                    self.segs[j:j + 1] = [("prior", left), ("prior", right)]
                return j + 1
            acc = acc + n
        return None

    def load_slice(self, fr, lo, hi, node):
        a = 0 if lo is None else self._ensure_boundary(lo)
        b = len(self.segs) if hi is None else self._ensure_boundary(hi)
        if a is None or b is None or a > b:
            raise AnalysisError("engine B: slice [%r:%r] of %s is not at segment boundaries (line %d)"
                                % (lo, hi, self.name, getattr(node, "lineno", 0)))
        return SegBuf(self.segs[a:b], self.name + "[..]")

    def store_slice(self, fr, lo, hi, v, node):
        a = 0 if lo is None else self._ensure_boundary(lo)
        if hi is None:
            b = len(self.segs)
        else:
            b = self._ensure_boundary(hi)
            if lo is not None:
                a = self._boundary(lo)  # indices may have shifted after a split
        new = self.segments_of(v)
        if a is None or b is None or a > b:
            # Python clamps slice bounds; an unprovable boundary means the size may change
            self.events.append(("resize", "slice-store at unproved boundary", getattr(node, "lineno", 0)))
            return
        old_len = Aff(0)
        for s in self.segs[a:b]:
            old_len = old_len + Aff.of(seg_len(s))
        new_len = Aff(0)
        for s in new:
            new_len = new_len + Aff.of(seg_len(s))
        if any(s[0] == "prior" for s in self.segs[a:b]):
            self.events.append(("mutate-prior", getattr(node, "lineno", 0)))
        if B.prove_eq0(old_len - new_len) is not True:
            self.events.append(("resize", "slice-store %r -> %r" % (B.norm(old_len), B.norm(new_len)), getattr(node, "lineno", 0)))
        self.segs[a:b] = new
        self.events.append(("replace", a, b, getattr(node, "lineno", 0)))

    def load_index(self, fr, k, node):
        raise AnalysisError("engine B: element read of a segmented buffer at line %d" % getattr(node, "lineno", 0))

    def store_index(self, fr, k, v, node):
        self.events.append(("mutate-prior", getattr(node, "lineno", 0)))

    def getattr(self, fr, attr, node):
        line = getattr(node, "lineno", 0)
        if attr == "extend":
            def extend(ev, a, k, n):
                for s in self.segments_of(a[0]):
                    self.segs.append(s)
                    snap = None
                    if s[0] == "abs":
                        # what the generic byte is, and what was done to the buffer, at the moment it is written
                        snap = (s[1].val, tuple(e[0] for e in s[1].events))
                    self.events.append(("append", s, line, snap))
            return Native(extend, "bytearray.extend")
        if attr == "append":
            def append(ev, a, k, n):
                v = a[0]
                lo, hi = B.bounds(Aff.of(v))
                if lo is None or hi is None or lo < 0 or hi > 255:
                    if not (B.decide_ge0(Aff.of(v), "append: byte >= 0") and B.decide_ge0(Aff(255) - Aff.of(v), "append: byte <= 255")):
                        raise PyRaise("ValueError", node)
                s = ("bytes", [v])
                self.segs.append(s)
                self.events.append(("append", s, line))
            return Native(append, "bytearray.append")
        if attr == "copy":
            return Native(lambda ev, a, k, n: self.copy(), "bytearray.copy")
        if attr in ("clear", "pop", "insert", "remove", "reverse", "sort"):
            def bad(ev, a, k, n):
                self.events.append(("mutate-prior", line))
                self.events.append(("resize", attr, line))
            return Native(bad, "bytearray." + attr)
        raise AnalysisError("engine B: bytearray.%s on a segmented buffer" % attr)

    def appended(self):
        return [e[1] for e in self.events if e[0] == "append"]

    def disturbed(self):
        return [e for e in self.events if e[0] in ("mutate-prior", "resize")]


def checked_bytes(ev, args, kw, node):
    """bytes(...)/bytearray(...) with CPython's element range check modelled."""
    if not args:
        return SegBuf([], "bytearray()")
    v = args[0]
    if isinstance(v, AbsStr):
        codec = [a for a in args[1:]] + [kw.get("encoding"), kw.get("errors")]
        buf = AbsBuf("ansi")
        B.assume_eq0(buf.L - v.S)
        buf.codec = tuple(x for x in codec if isinstance(x, str))
        ev.abs_bufs = [buf]
        ev.encoded.append(buf)
        return buf
    if isinstance(v, ConstRun):
        return SegBuf([("const", v.value, v.n)], "bytearray(run)")
    if isinstance(v, (SegBuf, AbsBuf)):
        return v
    if isinstance(v, range):
        v = list(v)
    if isinstance(v, (list, tuple)):
        out = []
        for x in v:
            if isinstance(x, int):
                if not 0 <= x <= 255:
                    raise PyRaise("ValueError", node)
            else:
                if not (B.decide_ge0(Aff.of(x), "bytes(): element >= 0") and B.decide_ge0(Aff(255) - Aff.of(x), "bytes(): element <= 255")):
                    raise PyRaise("ValueError", node)
            out.append(x)
        return out
    if isinstance(v, int):
        return [0] * v
    if isinstance(v, Aff):
        n = B.norm(v)
        if n.is_const():
            return [0] * int(n.c)
        if B.prove_ge0(v) is not True:
            if not B.decide_ge0(v, "bytearray(n): n >= 0"):
                raise PyRaise("ValueError", node)
        return SegBuf([("const", 0, v)], "bytearray(n)")
    raise AnalysisError("engine B: bytes(%r)" % (v,))


def list_times(fr, lst, n, node):
    """[v] * n with symbolic n (negative n gives the empty list in Python)."""
    if len(lst) == 1 and isinstance(lst[0], int) and isinstance(n, Aff):
        if B.decide_ge0(n, "list repeat count >= 0"):
            return ConstRun(lst[0], n)
        return []
    raise AnalysisError("engine B: list repetition %r * %r" % (lst, n))
