"""Engine A, part 1: program index of /repo's working tree (never imports repo code).

Modules are addressed by dotted name; roots are `<repo>/src` (package `eolib`) and
`<repo>` (package `protocol_code_generator`, module `protocol`).  Anchors are resolved
by qualified name and a vanished anchor is an AnalysisError (exit 2), never a pass.
"""
import ast
import hashlib
import os

from .core import AnalysisError


class ModuleInfo:
    def __init__(self, name, path, tree, src):
        self.name = name
        self.path = path
        self.tree = tree
        self.src = src
        self.functions = {}  # name -> FunctionDef (module level)
        self.classes = {}  # name -> ClassDef
        self.consts = {}  # name -> folded python value
        self.imports = {}  # local name -> (module, original name or None)
        self.is_pkg = os.path.basename(path) == "__init__.py"
        self._scan()

    def _scan(self):
        for st in self.tree.body:
            if isinstance(st, (ast.FunctionDef, ast.AsyncFunctionDef)):
                self.functions[st.name] = st
            elif isinstance(st, ast.ClassDef):
                self.classes[st.name] = st
            elif isinstance(st, ast.ImportFrom):
                mod = resolve_relative(self.name, self.is_pkg, st.level, st.module)
                for a in st.names:
                    self.imports[a.asname or a.name] = (mod, a.name)
            elif isinstance(st, ast.Import):
                for a in st.names:
                    self.imports[a.asname or a.name.split(".")[0]] = (a.name if a.asname else a.name.split(".")[0], None)

    def rel(self, repo):
        return os.path.relpath(self.path, repo)


def resolve_relative(modname, is_pkg, level, module):
    if level == 0:
        return module
    base = modname.split(".") if is_pkg else modname.split(".")[:-1]
    base = base[: len(base) - (level - 1)]
    return ".".join(base + ([module] if module else []))


class Index:
    def __init__(self, repo):
        self.repo = os.path.abspath(repo)
        # the last root holds the reference formulas written for the checks (package `refs`)
        self.roots = [os.path.join(self.repo, "src"), self.repo, os.path.dirname(os.path.abspath(__file__))]
        self.modules = {}
        self.consulted = {}  # path -> sha256

    # ------------------------------------------------------------ loading
    def find_path(self, name):
        for root in self.roots:
            p = os.path.join(root, *name.split("."))
            if os.path.isfile(p + ".py"):
                return p + ".py"
            if os.path.isfile(os.path.join(p, "__init__.py")):
                return os.path.join(p, "__init__.py")
        return None

    def module(self, name):
        if name in self.modules:
            return self.modules[name]
        path = self.find_path(name)
        if path is None:
            raise AnalysisError("anchor vanished: module %s not found under %s" % (name, self.repo))
        with open(path, encoding="utf-8") as f:
            src = f.read()
        try:
            tree = ast.parse(src, path)
        except SyntaxError as e:
            raise AnalysisError("cannot parse %s: %s" % (path, e))
        self.consulted[path] = hashlib.sha256(src.encode()).hexdigest()
        m = ModuleInfo(name, path, tree, src)
        self.modules[name] = m
        self._fold_consts(m)
        return m

    def has_module(self, name):
        return name in self.modules or self.find_path(name) is not None

    def _fold_consts(self, m):
        for st in m.tree.body:
            tgt = None
            if isinstance(st, ast.Assign) and len(st.targets) == 1 and isinstance(st.targets[0], ast.Name):
                tgt, val = st.targets[0].id, st.value
            elif isinstance(st, ast.AnnAssign) and isinstance(st.target, ast.Name) and st.value is not None:
                tgt, val = st.target.id, st.value
            if tgt is None:
                continue
            try:
                m.consts[tgt] = self.fold(m, val)
            except ValueError:
                pass

    def fold(self, m, e):
        """Constant-fold an int/str/bool expression built from literals and module constants."""
        if isinstance(e, ast.Constant) and isinstance(e.value, (int, str, bool)):
            return e.value
        if isinstance(e, ast.Name):
            if e.id in m.consts:
                return m.consts[e.id]
            if e.id in m.imports:
                mod, orig = m.imports[e.id]
                if orig and mod and self.has_module(mod):
                    mm = self.module(mod)
                    if orig in mm.consts:
                        return mm.consts[orig]
            raise ValueError(e.id)
        if isinstance(e, ast.UnaryOp) and isinstance(e.op, ast.USub):
            return -self.fold(m, e.operand)
        if isinstance(e, ast.BinOp):
            a, b = self.fold(m, e.left), self.fold(m, e.right)
            if isinstance(a, bool) or isinstance(b, bool) or not isinstance(a, int) or not isinstance(b, int):
                raise ValueError("non-int")
            if isinstance(e.op, ast.Add):
                return a + b
            if isinstance(e.op, ast.Sub):
                return a - b
            if isinstance(e.op, ast.Mult):
                return a * b
            if isinstance(e.op, ast.Pow) and 0 <= b < 64:
                return a ** b
            if isinstance(e.op, ast.FloorDiv) and b:
                return a // b
            if isinstance(e.op, ast.LShift) and 0 <= b < 64:
                return a << b
        if isinstance(e, ast.Call) and isinstance(e.func, ast.Name) and e.func.id == "pow" and len(e.args) == 2:
            a, b = self.fold(m, e.args[0]), self.fold(m, e.args[1])
            if isinstance(a, int) and isinstance(b, int) and 0 <= b < 64:
                return a ** b
        raise ValueError("not constant")

    # ------------------------------------------------------------ anchors
    def function(self, qual):
        """`pkg.mod.func` or `pkg.mod.Class.method` -> (ModuleInfo, FunctionDef, ClassDef|None)."""
        parts = qual.split(".")
        for cut in range(len(parts) - 1, 0, -1):
            mod = ".".join(parts[:cut])
            if self.find_path(mod):
                rest = parts[cut:]
                m = self.module(mod)
                if len(rest) == 1 and rest[0] in m.functions:
                    return m, m.functions[rest[0]], None
                if len(rest) == 2 and rest[0] in m.classes:
                    for f in self.methods(m.classes[rest[0]], rest[1]):
                        return m, f, m.classes[rest[0]]
                if len(rest) <= 2:
                    break
        raise AnalysisError("anchor vanished: %s" % qual)

    def klass(self, qual):
        mod, _, cname = qual.rpartition(".")
        m = self.module(mod)
        if cname not in m.classes:
            raise AnalysisError("anchor vanished: class %s" % qual)
        return m, m.classes[cname]

    @staticmethod
    def methods(cls, name=None):
        out = []
        for st in cls.body:
            if isinstance(st, (ast.FunctionDef, ast.AsyncFunctionDef)) and (name is None or st.name == name):
                out.append(st)
        return out

    @staticmethod
    def decorators(fn):
        out = []
        for d in fn.decorator_list:
            try:
                out.append(ast.unparse(d))
            except Exception:
                out.append("?")
        return out

    def loc(self, m, node):
        return "%s:%d" % (os.path.relpath(m.path, self.repo), getattr(node, "lineno", 0))

    def all_module_names(self, pkg_root):
        """All modules under a top-level package / module name."""
        out = []
        for root in self.roots:
            base = os.path.join(root, pkg_root)
            if os.path.isfile(base + ".py"):
                out.append(pkg_root)
            if not os.path.isdir(base):
                continue
            for d, dirs, files in os.walk(base):
                dirs[:] = sorted(x for x in dirs if x != "__pycache__")
                rel = os.path.relpath(d, root).replace(os.sep, ".")
                for f in sorted(files):
                    if f == "__init__.py":
                        out.append(rel)
                    elif f.endswith(".py"):
                        out.append(rel + "." + f[:-3])
        return out


def docstring_free_body(fn):
    body = fn.body
    if body and isinstance(body[0], ast.Expr) and isinstance(body[0].value, ast.Constant) and isinstance(body[0].value.value, str):
        return body[1:]
    return body


def walk_no_nested(node):
    """ast.walk that does not descend into nested function/class definitions."""
    stack = list(ast.iter_child_nodes(node))
    while stack:
        n = stack.pop()
        yield n
        if isinstance(n, (ast.FunctionDef, ast.AsyncFunctionDef, ast.ClassDef, ast.Lambda)):
            continue
        stack.extend(ast.iter_child_nodes(n))
