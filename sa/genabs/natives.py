"""Engine C-1: native models -- builtins, string methods on templates, the few stdlib names
the generator uses (html, copy, os, os.path, pathlib, ElementTree, abc), abstract files."""
import posixpath

from .values import (Bound, Elem, ExcClass, ExcObj, Func, Inst, Module, Native, Prop, PyRaise, Sym, SymInt, Tmpl, UClass,
                     Unsupported, World, as_tmpl, choose, concat, is_strlike, simplify, skey, str_eq)


# ---------------------------------------------------------------- string protocol
def to_str(it, x):
    if is_strlike(x):
        return x
    if isinstance(x, bool) or x is None or isinstance(x, int):
        return str(x)
    if isinstance(x, SymInt):
        return Tmpl([x])
    if isinstance(x, Inst):
        f = x.cls.lookup("__str__")
        if isinstance(f, Func):
            return it.call(f, [x], {})
        return "<%s object>" % x.cls.name
    if isinstance(x, ExcObj):
        return x.args[0] if x.args and is_strlike(x.args[0]) else (repr(x))
    if isinstance(x, PathObj):
        return x.s
    if isinstance(x, (list, tuple)):
        return repr(x)
    raise Unsupported("str() of %r" % (x,))


def to_repr(it, x):
    if isinstance(x, str):
        return repr(x)
    if is_strlike(x):
        return concat(concat("'", x), "'")
    return to_str(it, x)


def str_contains(hay, needle):
    hay = simplify(hay)
    if isinstance(hay, Sym):
        if not hay.wild and any(c in needle for c in " \n\t.:\"'\\/"):
            return False
        return hay.pred("contains %r" % needle)
    for p in as_tmpl(hay).parts:
        if isinstance(p, str) and needle in p:
            return True
        if isinstance(p, Sym) and p.wild and p.pred("contains %r" % needle):
            return True
    return False


def str_slice(o, lo, hi, st):
    o = simplify(o)
    if isinstance(o, Tmpl) and st is None and lo in (None, 0) and isinstance(hi, PosMark):
        return simplify(Tmpl(o.parts[:hi.part] + ([o.parts[hi.part][:hi.off]] if hi.off else [])))
    if isinstance(o, Tmpl) and st is None and hi is None and isinstance(lo, PosMark):
        return simplify(Tmpl([o.parts[lo.part][lo.off:]] + o.parts[lo.part + 1:]))
    if isinstance(o, Tmpl) and st is None:
        # integer positions that fall inside the leading literal text
        first = o.parts[0] if o.parts and isinstance(o.parts[0], str) else ""
        if isinstance(lo, int) and hi is None and 0 <= lo <= len(first):
            return simplify(Tmpl([first[lo:]] + o.parts[(1 if first else 0):]))
        if (lo is None or lo == 0) and isinstance(hi, int) and 0 <= hi <= len(first):
            return first[:hi]
        if isinstance(lo, int) and isinstance(hi, int) and 0 <= lo <= hi <= len(first):
            return first[lo:hi]
        if isinstance(lo, int) and hi is None and first and lo > len(first) and len(o.parts) >= 2 and isinstance(o.parts[1], Sym):
            # the cut falls inside the symbol that follows the literal text: an (unknown) tail of that symbol
            k = lo - len(first)
            tail = Sym("tail(%s,%d)" % (o.parts[1].tag, k), prov=("derived", "tail", o.parts[1]), wild=o.parts[1].wild)
            return simplify(Tmpl([tail] + o.parts[2:]))
    raise Unsupported("slice [%r:%r] of symbolic string %r" % (lo, hi, o))


class PosMark:
    """Position inside a template: index of the literal part and offset in it (result of .index())."""

    def __init__(self, part, off):
        self.part, self.off = part, off

    def __add__(self, n):
        return PosMark(self.part, self.off + n)


def split_tmpl(t, sep, maxsplit=-1, right=False):
    """Split a template on a literal separator; symbols are assumed not to contain it unless wild."""
    t = as_tmpl(t)
    pieces = [[]]
    for p in t.parts:
        if isinstance(p, str):
            chunks = p.split(sep)
            for i, c in enumerate(chunks):
                if i > 0:
                    pieces.append([])
                if c:
                    pieces[-1].append(c)
        else:
            if isinstance(p, Sym) and p.wild and p.pred("contains %r" % sep):
                raise Unsupported("split of free text containing the separator %r" % sep)
            pieces[-1].append(p)
    if maxsplit >= 0 and len(pieces) - 1 > maxsplit:
        if right:
            head = pieces[: len(pieces) - maxsplit]
            merged = []
            for i, h in enumerate(head):
                if i:
                    merged.append(sep)
                merged.extend(h)
            pieces = [merged] + pieces[len(pieces) - maxsplit:]
        else:
            tail = pieces[maxsplit:]
            merged = []
            for i, h in enumerate(tail):
                if i:
                    merged.append(sep)
                merged.extend(h)
            pieces = pieces[:maxsplit] + [merged]
    return [simplify(Tmpl(p)) if p else "" for p in pieces]


def str_method(it, o, a, args, kw):
    o = simplify(o)
    if a == "encode":
        # text stays text in this model; what it was encoded with is remembered for the sink rule
        World.trace.setdefault("encodings", []).append(args[0] if args else kw.get("encoding", "utf-8"))
        return o
    if isinstance(o, str) and all(isinstance(x, (str, int, type(None), tuple)) for x in args) and a != "join":
        try:
            return getattr(o, a)(*args, **kw)
        except ValueError:
            raise PyRaise(ExcObj(it.builtins["ValueError"], ["substring not found"]))
    if a == "join":
        items = it.iterate(args[0])
        parts = []
        for i, x in enumerate(items):
            if i:
                parts.append(o)
            if not is_strlike(x):
                raise PyRaise(ExcObj(it.builtins["TypeError"], ["join of non-str"]))
            parts.append(as_tmpl(x))
        return simplify(Tmpl(parts))
    if a in ("split", "rsplit"):
        sep = args[0] if args else kw.get("sep")
        if not isinstance(sep, str):
            raise Unsupported("split without a literal separator")
        mx = args[1] if len(args) > 1 else kw.get("maxsplit", -1)
        return split_tmpl(o, sep, mx, right=(a == "rsplit"))
    if a == "splitlines":
        return split_tmpl(o, "\n")
    if a in ("partition", "rpartition"):
        sep = args[0] if args else None
        if not isinstance(sep, str) or not sep:
            raise Unsupported("partition without a literal separator")
        pieces = split_tmpl(o, sep, 1, right=(a == "rpartition"))
        if len(pieces) == 2:
            return (pieces[0], sep, pieces[1])
        return (o, "", "") if a == "partition" else ("", "", o)
    if a in ("strip", "lstrip", "rstrip"):
        t = as_tmpl(o)
        parts = list(t.parts)
        chars = args[0] if args else None
        if a in ("strip", "lstrip") and parts and isinstance(parts[0], str):
            parts[0] = parts[0].lstrip(chars)
        if a in ("strip", "rstrip") and parts and isinstance(parts[-1], str):
            parts[-1] = parts[-1].rstrip(chars)
        return simplify(Tmpl(parts))
    if a == "isdigit":
        if isinstance(o, Sym):
            return o.pred("isdigit")
        return all((isinstance(p, str) and p.isdigit()) or (isinstance(p, Sym) and p.pred("isdigit")) for p in as_tmpl(o).parts)
    if a in ("lower", "upper", "capitalize", "title"):
        if isinstance(o, Sym):
            if a == "lower":
                return LowerOf.of(o)
            return derived(a, o)
        return derived(a, o)
    if a == "startswith":
        pre = args[0]
        if isinstance(pre, tuple):
            return any(str_method(it, o, a, [p], kw) for p in pre)
        t = as_tmpl(o)
        if not t.parts:
            return pre == ""
        first = t.parts[0]
        if isinstance(first, str):
            if len(first) >= len(pre):
                return first.startswith(pre)
            if not pre.startswith(first):
                return False
            rest = pre[len(first):]
            if len(t.parts) < 2:
                return False
            nxt = t.parts[1]
            if isinstance(nxt, Sym):
                return nxt.pred("startswith %r" % rest) if not _excluded(nxt, rest) else False
            raise Unsupported("startswith on %r" % (o,))
        if isinstance(first, Sym):
            return first.pred("startswith %r" % pre) if not _excluded(first, pre) else False
        raise Unsupported("startswith on %r" % (o,))
    if a == "endswith":
        suf = args[0]
        t = as_tmpl(o)
        last = t.parts[-1] if t.parts else ""
        if isinstance(last, str):
            if len(last) >= len(suf):
                return last.endswith(suf)
            if not suf.endswith(last):
                return False
        if isinstance(last, Sym):
            return last.pred("endswith %r" % suf) if not _excluded(last, suf) else False
        raise Unsupported("endswith on %r" % (o,))
    if a in ("index", "find"):
        needle = args[0]
        t = as_tmpl(o)
        for i, p in enumerate(t.parts):
            if isinstance(p, str) and needle in p:
                return PosMark(i, p.index(needle))
            if isinstance(p, Sym) and p.wild and p.pred("contains %r" % needle):
                raise Unsupported("index into free text")
        if a == "find":
            return -1
        raise PyRaise(ExcObj(it.builtins["ValueError"], ["substring not found"]))
    if a in ("rindex", "rfind"):
        needle = args[0]
        t = as_tmpl(o)
        for i in range(len(t.parts) - 1, -1, -1):
            p = t.parts[i]
            if isinstance(p, str) and needle in p:
                return PosMark(i, p.rindex(needle))
            if isinstance(p, Sym) and p.wild and p.pred("contains %r" % needle):
                raise Unsupported("rindex into free text")
        if a == "rfind":
            return -1
        raise PyRaise(ExcObj(it.builtins["ValueError"], ["substring not found"]))
    if a == "replace":
        old, new = args[0], args[1]
        parts = []
        for p in as_tmpl(o).parts:
            if isinstance(p, str):
                parts.append(p.replace(old, new) if isinstance(new, str) else p)
                if not isinstance(new, str) and old in p:
                    raise Unsupported("replace with symbolic text")
            else:
                if isinstance(p, Sym) and p.wild:
                    # free text: remember which substrings have been rewritten (escaping), whether or not they occur
                    n = Sym("replace(%s,%r,%r)" % (p.tag, old, new), prov=("derived", "replace", p), wild=True)
                    n.escapes = tuple(getattr(p, "escapes", ())) + ((old, new),)
                    for k, v in p.preds.items():
                        if k.startswith("contains") and k != "contains %r" % old:
                            n.preds[k] = v
                    n.derived_from = Tmpl([p])
                    parts.append(n)
                else:
                    parts.append(p)
        return simplify(Tmpl(parts))
    if a == "format":
        raise Unsupported("str.format")
    if a == "encode":
        World.trace.setdefault("encodings", []).append(args[0] if args else kw.get("encoding", "utf-8"))
        return o
    if a == "isupper" or a == "islower" or a == "isalpha" or a == "isidentifier":
        if isinstance(o, Sym):
            return o.pred(a)
    if a == "count":
        needle = args[0]
        return sum(p.count(needle) for p in as_tmpl(o).parts if isinstance(p, str))
    raise Unsupported("str.%s on %r" % (a, o))


def _excluded(sym, lit):
    return (not sym.wild) and any(c in lit for c in " \n\t.:\"'\\/")


class LowerOf:
    """lower() of a symbol: remembers its source so that `x.lower() == "true"` forks on the symbol."""
    cache = {}

    @staticmethod
    def of(s):
        n = Sym("lower(%s)" % s.tag, prov=("derived", "lower", s), wild=s.wild)
        n.lower_of = s
        for k in ("isdigit", "isint"):
            if k in s.preds:
                n.preds[k] = s.preds[k]
        if "lower== 'true'" in s.preds:
            n.preds["== 'true'"] = s.preds["lower== 'true'"]
        elif s.preds.get("== 'true'") is True:
            n.preds["== 'true'"] = True
        n._src = s
        orig_pred = n.pred

        def pred(name, _n=n, _s=s, _orig=orig_pred):
            if name == "== 'true'" and name not in _n.preds:
                _n.set_pred(name, _s.pred("lower== 'true'"))
            return _orig(name)
        n.pred = pred
        return n


def derived(fn, x):
    t = as_tmpl(x)
    cache = World.trace.setdefault("derived", {}) if World.trace is not None else {}
    ck = (fn, skey(t))
    if ck in cache:
        return cache[ck]
    s = _derived(fn, t)
    cache[ck] = s
    return s


def _derived(fn, t):
    inner = "".join(p if isinstance(p, str) else getattr(p, "tag", "?") for p in t.parts)
    s = Sym("%s(%s)" % (fn, inner), prov=("derived", fn, t), wild=any(isinstance(p, Sym) and p.wild for p in t.parts))
    s.derived_from = t
    if not s.wild:
        for k in ("isdigit", "isint", "== 'true'", "== 'false'", "== 'None'", "vocab"):
            s.preds[k] = False
    return s


# ---------------------------------------------------------------- attribute access on native values
def native_getattr(it, o, a, node):
    from .absint import SDict, SSet, SuperProxy
    if is_strlike(o):
        return Native(lambda *args, **kw: str_method(it, o, a, list(args), kw), "str." + a)
    if isinstance(o, SDict):
        return Native(lambda *args, **kw: sdict_method(it, o, a, args), "dict." + a)
    if isinstance(o, dict):
        return Native(lambda *args, **kw: dict_method(it, o, a, args), "dict." + a)
    if isinstance(o, list):
        return Native(lambda *args, **kw: list_method(it, o, a, args, kw), "list." + a)
    if isinstance(o, tuple):
        if a in ("index", "count"):
            return Native(lambda *args: getattr(o, a)(*args), "tuple." + a)
    if isinstance(o, SSet):
        return Native(lambda *args, **kw: sset_method(it, o, a, args), "set." + a)
    if isinstance(o, Elem):
        return elem_attr(it, o, a)
    if isinstance(o, ExcObj):
        if a == "args":
            return tuple(o.args)
        raise Unsupported("exception attribute %s" % a)
    if isinstance(o, SuperProxy):
        if o.cls is None or o.self_ is None:
            raise Unsupported("super() outside a method")
        mro = o.self_.cls.mro() if isinstance(o.self_, Inst) else o.self_.mro()
        idx = mro.index(o.cls)
        for c in mro[idx + 1:]:
            if a in c.ns:
                v = c.ns[a]
                if isinstance(v, Func):
                    return Bound(v, o.self_)
                return v
        return Native(lambda *args, **kw: None, "object." + a)
    if isinstance(o, Native) and o.name == "str":
        return Native(lambda s_, *rest, **kw: str_method(it, s_, a, list(rest), kw), "str." + a)
    if isinstance(o, Native) and o.name == "dict" and a == "fromkeys":
        def fromkeys(keys, v=None):
            d = SDict()
            for k in it.iterate(keys):
                d.set(k, v)
            return d
        return Native(fromkeys, "dict.fromkeys")
    if hasattr(o, "abs_getattr"):
        return o.abs_getattr(it, a)
    if isinstance(o, Func) and a == "__name__":
        return getattr(o.node, "name", "<lambda>")
    raise Unsupported("attribute %s of %r" % (a, o))


def elem_attr(it, o, a):
    if a == "tag":
        return o.tag
    if a == "text":
        return o.text
    if a == "tail":
        return o.tail
    if a == "attrib":
        from .absint import SDict
        d = SDict()
        for k, v in o.attrs.items():
            d.set(k, v)
        return d
    if a == "get":
        return Native(lambda n, d=None: o.attrs.get(n, d), "Element.get")
    if a == "findall":
        return Native(lambda t: [c for c in o.children if c.tag == t], "Element.findall")
    if a == "find":
        return Native(lambda t: next((c for c in o.children if c.tag == t), None), "Element.find")
    if a == "iter":
        def walk(t=None):
            out = []

            def rec(e):
                if t is None or e.tag == t:
                    out.append(e)
                for c in e.children:
                    rec(c)
            rec(o)
            return out
        return Native(walk, "Element.iter")
    if a == "keys":
        return Native(lambda: list(o.attrs.keys()), "Element.keys")
    if a == "items":
        return Native(lambda: list(o.attrs.items()), "Element.items")
    raise Unsupported("Element.%s" % a)


def sdict_method(it, o, a, args):
    if a == "get":
        return o.get_(args[0], args[1] if len(args) > 1 else None)
    if a == "clear":
        dict.clear(o)
        o.orig.clear()
        return None
    if a == "keys":
        return o.keys_()
    if a == "values":
        return [dict.__getitem__(o, k) for k in dict.keys(o)]
    if a == "items":
        return [(o.orig[k], dict.__getitem__(o, k)) for k in dict.keys(o)]
    if a == "setdefault":
        if not o.has(args[0]):
            o.set(args[0], args[1] if len(args) > 1 else None)
        return o.get_(args[0])
    if a == "pop":
        if o.has(args[0]):
            v = o.get_(args[0])
            o.remove(args[0])
            return v
        if len(args) > 1:
            return args[1]
        raise PyRaise(ExcObj(it.builtins["KeyError"], [args[0]]))
    if a == "update":
        src = args[0]
        for k, v in (sdict_method(it, src, "items", ()) if hasattr(src, "keys_") else list(src.items())):
            o.set(k, v)
        return None
    if a == "copy":
        return o.copy_()
    raise Unsupported("dict.%s" % a)


def dict_method(it, o, a, args):
    def kk(k):
        return skey(k) if is_strlike(k) else k
    if a == "get":
        return o.get(kk(args[0]), args[1] if len(args) > 1 else None)
    if a == "clear":
        return o.clear()
    if a in ("keys", "values", "items"):
        return list(getattr(o, a)())
    if a == "pop":
        return o.pop(kk(args[0]), *args[1:])
    if a == "setdefault":
        return o.setdefault(kk(args[0]), args[1] if len(args) > 1 else None)
    if a == "update":
        o.update(args[0])
        return None
    raise Unsupported("dict.%s" % a)


def list_method(it, o, a, args, kw):
    if a in ("append", "extend", "insert", "pop", "clear", "reverse", "copy"):
        if a == "extend":
            return o.extend(it.iterate(args[0]))
        return getattr(o, a)(*args)
    if a == "remove":
        for i, x in enumerate(o):
            if x is args[0] or (is_strlike(x) and is_strlike(args[0]) and str_eq(x, args[0])) or (not is_strlike(x) and x == args[0]):
                del o[i]
                return None
        raise PyRaise(ExcObj(it.builtins["ValueError"], ["list.remove(x): x not in list"]))
    if a == "index":
        for i, x in enumerate(o):
            if x is args[0] or (is_strlike(x) and is_strlike(args[0]) and str_eq(x, args[0])):
                return i
        raise PyRaise(ExcObj(it.builtins["ValueError"], ["not in list"]))
    if a == "sort":
        res = b_sorted(it)(o, **kw)
        o[:] = res
        return None
    if a == "count":
        return sum(1 for x in o if x is args[0] or (is_strlike(x) and is_strlike(args[0]) and str_eq(x, args[0])))
    raise Unsupported("list.%s" % a)


def _set_add(it, o, x):
    """set.add honouring a user-defined __eq__ on instances (members equal to one already present are not added)."""
    if isinstance(x, Inst):
        eq = next((c.ns["__eq__"] for c in x.cls.mro() if "__eq__" in c.ns), None)
        if isinstance(eq, Func):
            for y in o.items:
                if isinstance(y, Inst) and it.truth(it.call(Bound(eq, x), [y], {})):
                    return None
    return o.add(x)


def sset_method(it, o, a, args):
    if a == "add":
        return _set_add(it, o, args[0])
    if a == "clear":
        o.items[:] = []
        o.keys.clear()
        return None
    if a == "update":
        for x in it.iterate(args[0]):
            _set_add(it, o, x)
        return None
    if a == "discard" or a == "remove":
        k = skey(args[0])
        if k in o.keys:
            o.keys.discard(k)
            o.items[:] = [x for x in o.items if skey(x) != k]
        elif a == "remove":
            raise PyRaise(ExcObj(it.builtins["KeyError"], [args[0]]))
        return None
    if a == "copy":
        from .absint import SSet
        return SSet(o.items)
    raise Unsupported("set.%s" % a)


# ---------------------------------------------------------------- builtins
def b_sorted(it):
    from .absint import SSet

    def f(xs, key=None, reverse=False):
        src = xs.items if isinstance(xs, SSet) else it.iterate(xs)
        items = list(src)
        keyed = [(it.call(key, [x], {}) if key is not None else x) for x in items]
        if isinstance(xs, SSet) and key is not None:
            # sorted() is stable: members of a set whose keys tie come out in the set's iteration order
            seen = {}
            for x, k in zip(items, keyed):
                kk = skey(k) if is_strlike(k) else repr(k)
                if kk in seen:
                    nondeterministic("sorted() over a set with a key on which two members tie (%s)" % (as_tmpl(k).text() if is_strlike(k) else kk))
                    break
                seen[kk] = x
        if all(isinstance(k, (str, int)) for k in keyed) and len({type(k) for k in keyed}) <= 1:
            order = sorted(range(len(items)), key=lambda i: keyed[i], reverse=reverse)
            return [items[i] for i in order]
        # symbolic members: a deterministic total order exists but is unknown; use a canonical one
        # (by template text) and mark the result as canonically ordered
        order = sorted(range(len(items)), key=lambda i: as_tmpl(keyed[i]).text() if is_strlike(keyed[i]) else repr(keyed[i]), reverse=reverse)
        World.trace.setdefault("symbolic_sorts", 0)
        World.trace["symbolic_sorts"] += 1
        return [items[i] for i in order]
    return f


def b_int(it):
    def f(v=0, base=10):
        if isinstance(v, bool):
            return int(v)
        if isinstance(v, int):
            return v
        if isinstance(v, SymInt):
            return v
        v = simplify(v)
        if isinstance(v, str):
            try:
                return int(v.strip(), base)
            except ValueError:
                raise PyRaise(ExcObj(it.builtins["ValueError"], ["invalid literal for int(): %r" % v]))
        if isinstance(v, Sym):
            if v.pred("isint"):
                lo = hi = None
                if v.preds.get("isdigit") is True:
                    lo = 1 if v.preds.get("positive") else 0
                if v.preds.get("negative"):
                    hi = -1
                return SymInt("int(%s)" % v.tag, v, lo=lo, hi=hi)
            raise PyRaise(ExcObj(it.builtins["ValueError"], ["invalid literal for int()"]))
        if v is None:
            raise PyRaise(ExcObj(it.builtins["TypeError"], ["int() argument must be a string or a number, not NoneType"]))
        raise Unsupported("int(%r)" % (v,))
    return f


def b_len(it):
    def f(v):
        from .absint import SDict, SSet
        if isinstance(v, (str, list, tuple, dict, set)):
            return len(v)
        if isinstance(v, SSet):
            return len(v.items)
        v2 = simplify(v) if is_strlike(v) else v
        if isinstance(v2, Sym):
            return SymInt("len(%s)" % v2.tag, v2, lo=1)
        if isinstance(v2, Tmpl):
            n = 0
            syms = []
            for p in v2.parts:
                if isinstance(p, str):
                    n += len(p)
                else:
                    syms.append(p)
            return SymInt("(%d + %s)" % (n, " + ".join("len(%s)" % getattr(s, "tag", s) for s in syms)), lo=n + len(syms))
        if isinstance(v, Elem):
            return len(v.children)
        if isinstance(v, Inst):
            ln = v.cls.lookup("__len__")
            if isinstance(ln, Func):
                return it.call(ln, [v], {})
        raise PyRaise(ExcObj(it.builtins["TypeError"], ["object of type %s has no len()" % type(v).__name__]))
    return f


def b_isinstance(it):
    def f(o, c):
        if isinstance(c, tuple):
            return any(f(o, x) for x in c)
        if isinstance(c, UClass):
            if isinstance(o, Inst):
                return c in o.cls.mro()
            if isinstance(o, Elem):
                return c.name == "Element"
            return False
        if isinstance(c, Native):
            nm = c.name
            if nm == "str":
                return is_strlike(o)
            if nm == "int":
                return isinstance(o, (int, SymInt)) and not isinstance(o, bool)
            if nm == "bool":
                return isinstance(o, bool)
            if nm == "list":
                return isinstance(o, list)
            if nm == "tuple":
                return isinstance(o, tuple)
            if nm == "dict":
                return isinstance(o, dict)
        if isinstance(c, ExcClass):
            return isinstance(o, ExcObj) and o.cls.isa(c)
        raise Unsupported("isinstance(%r, %r)" % (o, c))
    return f


def make_builtins(it):
    from .absint import SDict, SSet
    B = {}

    def nat(name, fn):
        B[name] = Native(fn, name)
    nat("len", b_len(it))
    nat("isinstance", b_isinstance(it))
    nat("int", b_int(it))
    nat("str", lambda v="": to_str(it, v))
    nat("repr", lambda v: to_repr(it, v))
    nat("bool", lambda v=False: it.truth(v))
    def b_abs(v):
        if isinstance(v, int):
            return abs(v)
        if v.lo is not None and v.lo >= 0:
            return SymInt("abs(%s)" % v.expr, lo=v.lo, hi=v.hi)
        if v.hi is not None and v.hi <= 0:
            return SymInt("abs(%s)" % v.expr, lo=-v.hi, hi=(-v.lo if v.lo is not None else None))
        return SymInt("abs(%s)" % v.expr, lo=0)
    nat("abs", b_abs)
    nat("pow", lambda a, b: pow(a, b))
    nat("min", lambda *a, **k: min(*a, **k))
    nat("max", lambda *a, **k: max(*a, **k))
    nat("sum", lambda xs, s=0: sum(it.iterate(xs), s))
    nat("range", lambda *a: range(*a))
    nat("enumerate", lambda xs, start=0: [(i + start, x) for i, x in enumerate(it.iterate(xs))])
    nat("zip", lambda *xs: [tuple(t) for t in zip(*[it.iterate(x) for x in xs])])
    nat("reversed", lambda xs: list(reversed(it.iterate(xs))))
    nat("print", lambda *a, **k: None)
    nat("next", b_next(it))
    nat("iter", lambda xs: Iter(it.iterate(xs)))
    nat("map", lambda f, *xs: [it.call(f, list(t), {}) for t in zip(*[it.iterate(x) for x in xs])])
    nat("filter", lambda f, xs: [x for x in it.iterate(xs) if it.truth(it.call(f, [x], {}) if f is not None else x)])
    nat("sorted", b_sorted(it))
    nat("any", lambda xs: any(it.truth(x) for x in it.iterate(xs)))
    nat("all", lambda xs: all(it.truth(x) for x in it.iterate(xs)))
    nat("set", lambda xs=(): SSet(it.iterate(xs)))
    nat("frozenset", lambda xs=(): SSet(it.iterate(xs)))
    nat("list", lambda xs=(): list(it.iterate(xs)))
    nat("tuple", lambda xs=(): tuple(it.iterate(xs)))
    nat("dict", b_dict(it))
    nat("getattr", lambda o, a, *d: b_getattr(it, o, a, d))
    nat("hasattr", lambda o, a: b_hasattr(it, o, a))
    nat("setattr", lambda o, a, v: it.setattr(o, a, v))
    nat("type", lambda o: o.cls if isinstance(o, Inst) else Native(None, type(o).__name__))
    nat("id", lambda o: nondeterministic("id()"))
    nat("hash", lambda o: nondeterministic("hash()"))
    nat("open", lambda path, mode="r", **kw: open_file(it, path, mode, **kw))
    nat("property", lambda f: Prop(f))
    B["object"] = UClass("object", [], {})
    B["True"], B["False"], B["None"] = True, False, None
    B["NotImplemented"] = None
    base = ExcClass("BaseException")
    exc = ExcClass("Exception", base)
    B["BaseException"], B["Exception"] = base, exc
    for n, parent in (("RuntimeError", exc), ("ValueError", exc), ("AssertionError", exc), ("KeyError", exc), ("TypeError", exc),
                      ("AttributeError", exc), ("IndexError", exc), ("NameError", exc), ("OSError", exc), ("StopIteration", exc),
                      ("LookupError", exc), ("ArithmeticError", exc)):
        B[n] = ExcClass(n, parent)
    B["NotImplementedError"] = ExcClass("NotImplementedError", B["RuntimeError"])
    B["FileNotFoundError"] = ExcClass("FileNotFoundError", B["OSError"])
    B["UnicodeDecodeError"] = ExcClass("UnicodeDecodeError", B["ValueError"])
    return B


def nondeterministic(what):
    World.trace.setdefault("nondeterminism", []).append(what)
    return SymInt(what)


class Iter:
    def __init__(self, items):
        self.items = list(items)
        self.pos = 0


def b_next(it):
    def f(xs, *default):
        if isinstance(xs, Iter):
            if xs.pos < len(xs.items):
                xs.pos += 1
                return xs.items[xs.pos - 1]
            items = []
        else:
            items = it.iterate(xs)
        if items:
            return items[0]
        if default:
            return default[0]
        raise PyRaise(ExcObj(it.builtins["StopIteration"], []))
    return f


def b_dict(it):
    from .absint import SDict

    def f(src=None, **kw):
        d = SDict()
        if src is not None:
            if isinstance(src, SDict):
                return src.copy_()
            for pair in it.iterate(src):
                k, v = pair
                d.set(k, v)
        for k, v in kw.items():
            d.set(k, v)
        return d
    return f


def b_getattr(it, o, a, d):
    try:
        return it.getattr(o, a)
    except PyRaise:
        if d:
            return d[0]
        raise


def b_hasattr(it, o, a):
    try:
        it.getattr(o, a)
        return True
    except PyRaise:
        return False


# ---------------------------------------------------------------- files and paths
class FileSink:
    """open(path, mode, encoding=...) -- records what is written; reading is not modelled."""

    def __init__(self, it, path, mode, kw):
        self.path = path.s if isinstance(path, PathObj) else path
        self.mode = mode
        self.kw = kw
        self.chunks = []
        World.trace.setdefault("files", []).append(self)

    def abs_enter(self):
        return self

    def abs_exit(self):
        pass

    def abs_getattr(self, it, a):
        if a == "write":
            def write(s):
                self.chunks.append(s)
                return None
            return Native(write, "file.write")
        if a == "close":
            return Native(lambda: None, "file.close")
        raise Unsupported("file.%s" % a)

    def content(self):
        return simplify(Tmpl([as_tmpl(c) for c in self.chunks]))


class PathObj:
    """pathlib.Path over (possibly symbolic) posix path text."""

    def __init__(self, s):
        s = simplify(s.s if isinstance(s, PathObj) else s)
        # pathlib normalisation: no trailing slash, no empty or '.' components
        if isinstance(s, str):
            if s not in ("", "/"):
                lead = "/" if s.startswith("/") else ""
                s = lead + "/".join(c for c in s.split("/") if c not in ("", ".")) or "."
            elif s == "":
                s = "."
        else:
            comps = split_tmpl(s, "/")
            lead = "/" if comps and comps[0] == "" else ""
            comps = [c for c in comps if not (isinstance(c, str) and c in ("", "."))]
            s = concat(lead, _join(comps)) if lead else _join(comps)
        self.s = s

    def abs_getattr(self, it, a):
        if a == "as_posix":
            return Native(lambda: self.s, "Path.as_posix")
        if a == "with_suffix":
            def ws(suffix):
                parts = split_tmpl(self.s, "/")
                last = split_tmpl(parts[-1], ".", 1, right=True)
                base = last[0]
                new_last = concat(base, suffix)
                return PathObj(_join(parts[:-1] + [new_last]))
            return Native(ws, "Path.with_suffix")
        if a == "parts":
            return tuple(p for p in split_tmpl(self.s, "/") if p != "")
        if a == "parent":
            return PathObj(p_dirname(self.s))
        if a == "name":
            return split_tmpl(self.s, "/")[-1]
        if a == "joinpath":
            return Native(lambda *xs: PathObj(p_join(self.s, *[x.s if isinstance(x, PathObj) else x for x in xs])), "Path.joinpath")
        if a == "resolve":
            return Native(lambda: self, "Path.resolve")
        if a in ("exists", "is_file"):
            return Native(lambda: out_exists(it, self, a), "Path." + a)
        raise Unsupported("Path.%s" % a)


def _join(parts):
    out = []
    for i, p in enumerate(parts):
        if i:
            out.append("/")
        out.append(as_tmpl(p))
    return simplify(Tmpl(out))


def _under_output(p):
    t = as_tmpl(p.s if isinstance(p, PathObj) else p).text()
    return t == "/out" or t.startswith("/out/")


def out_exists(it, p, what="exists"):
    """Does the (possibly pre-populated) output directory already hold this path?  Unknown: both are explored, the
    answer is fixed per path text for one evaluation, and the consultation is recorded."""
    if not _under_output(p):
        return True
    t = as_tmpl(p.s if isinstance(p, PathObj) else p).text()
    if World.trace.get("fresh_output"):
        World.trace.setdefault("consulted_output", []).append("%s(%s)" % (what, t))
        return False  # this evaluation writes into an empty directory
    # one scenario per evaluation: the directory is empty, or it already holds every path the run asks about (the
    # generator treats its files independently of each other; mixed directories are not enumerated)
    if "out_pre_all" not in World.trace:
        World.trace["out_pre_all"] = choose("the output directory already holds the files this run asks about")
    World.trace.setdefault("consulted_output", []).append("%s(%s)" % (what, t))
    return World.trace["out_pre_all"]


def out_getsize(it, p):
    if not out_exists(it, p, "getsize"):
        raise PyRaise(ExcObj(it.builtins["FileNotFoundError"], [p]))
    return PreSize()


def _pre_equal(exact):
    """Do the files already in the output directory hold what this run would write?  One answer per evaluation.  Read as
    bytes (or as text with newline='') equality is equality of the files; read as text with universal newlines it only
    says that they decode to the same text."""
    k = "out_pre_equal" if exact else "out_pre_equal_text"
    if k not in World.trace:
        World.trace[k] = choose("the files already there hold exactly what this run writes" if exact else
                                "the files already there decode (newlines translated) to the text this run writes")
    return World.trace[k]


class PreContent:
    """Content of a file of the pre-populated output directory."""

    def __init__(self, exact=True):
        self.exact = exact

    def abs_eq(self, other):
        return _pre_equal(self.exact)

    def __repr__(self):
        return "<content already in the output directory>"


class PreSize(SymInt):
    """Size of such a file: equal sizes do not make equal contents (a separate unknown)."""

    def __init__(self):
        SymInt.__init__(self, "size of a file already in the output directory", lo=0)

    def abs_eq(self, other):
        if "out_pre_same_size" not in World.trace:
            World.trace["out_pre_same_size"] = choose("the files already there have the size of what this run writes")
        return World.trace["out_pre_same_size"]


class PreFile:
    """A file of the pre-populated output directory opened for reading: its content is unknown."""

    def __init__(self, it, path, mode, kw=None):
        self.it, self.path, self.mode, self.kw = it, path, mode, dict(kw or {})
        self.t = as_tmpl(path.s if isinstance(path, PathObj) else path).text()

    def abs_enter(self):
        return self

    def abs_exit(self):
        pass

    def abs_getattr(self, it, a):
        if a in ("read", "readlines", "readline"):
            World.trace.setdefault("consulted_output", []).append("read(%s)" % self.t)
            def read(*x):
                binary = "b" in self.mode
                if not binary:
                    # whatever is lying there need not be text in the requested encoding
                    if "out_pre_undecodable" not in World.trace:
                        World.trace["out_pre_undecodable"] = choose("a file already there is not valid text in the encoding it is read with")
                    if World.trace["out_pre_undecodable"]:
                        raise PyRaise(ExcObj(self.it.builtins["UnicodeDecodeError"], ["undecodable leftover file"]))
                return PreContent(exact=binary or self.kw.get("newline") == "")
            return Native(read, "file." + a)
        if a == "close":
            return Native(lambda: None, "file.close")
        raise Unsupported("file.%s on a file opened for reading" % a)


def open_file(it, path, mode="r", **kw):
    if mode.startswith("r") and "+" not in mode:
        if _under_output(path):
            if not out_exists(it, path, "open"):
                raise PyRaise(ExcObj(it.builtins["FileNotFoundError"], [path]))
            return PreFile(it, path, mode, kw)
        raise Unsupported("open(%r, %r): reading files is not modelled" % (path, mode))
    return FileSink(it, path, mode, kw)


def p_join(*parts):
    parts = [p.s if isinstance(p, PathObj) else p for p in parts]
    if all(isinstance(p, str) for p in parts):
        return posixpath.join(*parts)
    cur = ""
    for p in parts:
        ps = simplify(p)
        if isinstance(ps, str) and ps.startswith("/"):
            cur = ps
        elif cur == "" or (isinstance(cur, str) and cur.endswith("/")):
            cur = concat(cur, ps)
        else:
            t = as_tmpl(cur)
            if t.parts and isinstance(t.parts[-1], str) and t.parts[-1].endswith("/"):
                cur = concat(cur, ps)
            else:
                cur = concat(concat(cur, "/"), ps)
    return cur


def p_dirname(p):
    p = p.s if isinstance(p, PathObj) else simplify(p)
    if isinstance(p, str):
        return posixpath.dirname(p)
    parts = split_tmpl(p, "/")
    return _join(parts[:-1]) if len(parts) > 1 else ""


def p_basename(p):
    p = p.s if isinstance(p, PathObj) else simplify(p)
    if isinstance(p, str):
        return posixpath.basename(p)
    return split_tmpl(p, "/")[-1]


def p_relpath(it):
    def f(path, start="."):
        path = path.s if isinstance(path, PathObj) else simplify(path)
        start = start.s if isinstance(start, PathObj) else simplify(start)
        if isinstance(path, str) and isinstance(start, str):
            return posixpath.relpath(path, start)
        tp, ts = as_tmpl(path), as_tmpl(start)
        # strip a common literal/symbolic prefix
        if skey(Tmpl(tp.parts[:len(ts.parts)])) == skey(ts):
            rest = simplify(Tmpl(tp.parts[len(ts.parts):]))
            if isinstance(rest, str):
                return rest.lstrip("/") or "."
            t = as_tmpl(rest)
            if t.parts and isinstance(t.parts[0], str):
                t = Tmpl([t.parts[0].lstrip("/")] + t.parts[1:])
            return simplify(t)
        raise Unsupported("relpath(%r, %r)" % (path, start))
    return f


def stdlib_os(it):
    m_path = Module("os.path")
    m_path.env.update({
        "join": Native(p_join, "os.path.join"),
        "dirname": Native(p_dirname, "os.path.dirname"),
        "basename": Native(p_basename, "os.path.basename"),
        "relpath": Native(p_relpath(it), "os.path.relpath"),
        "exists": Native(lambda p: out_exists(it, p) if _under_output(p) else World.trace.get("fs_exists", True), "os.path.exists"),
        "getsize": Native(lambda p: out_getsize(it, p), "os.path.getsize"),
        "getmtime": Native(lambda p: nondeterministic("os.path.getmtime()"), "os.path.getmtime"),
        "abspath": Native(lambda p: p, "os.path.abspath"),
        "normpath": Native(lambda p: p, "os.path.normpath"),
        "isfile": Native(lambda p: out_exists(it, p, "isfile"), "os.path.isfile"),
        "isdir": Native(lambda p: True, "os.path.isdir"),
        "splitext": Native(lambda p: tuple(split_tmpl(p, ".", 1, right=True)) if "." in as_tmpl(p).text() else (p, ""), "os.path.splitext"),
    })

    def walk(root):
        fs = World.trace.get("fs")
        if fs is None:
            raise Unsupported("os.walk without an abstract file system")
        World.trace.setdefault("fs_order_dependent", []).append("os.walk")
        return fs.walk(root)

    def makedirs(p, exist_ok=False, **kw):
        World.trace.setdefault("makedirs", []).append((p, exist_ok))
        return None

    def listdir(p):
        fs = World.trace.get("fs")
        if fs is None:
            raise Unsupported("os.listdir without an abstract file system")
        World.trace.setdefault("fs_order_dependent", []).append("os.listdir")
        return fs.listdir(p)
    env = {
        "path": m_path, "walk": Native(walk, "os.walk"), "makedirs": Native(makedirs, "os.makedirs"),
        "listdir": Native(listdir, "os.listdir"), "sep": "/", "linesep": "\n",
        "getcwd": Native(lambda: nondet_str("os.getcwd()"), "os.getcwd"),
        "getpid": Native(lambda: nondeterministic("os.getpid()"), "os.getpid"),
        "environ": EnvironObj(), "system": Native(lambda c: 0, "os.system"),
        "urandom": Native(lambda n: nondeterministic("os.urandom()"), "os.urandom"),
    }
    return env


def nondet_str(what):
    World.trace.setdefault("nondeterminism", []).append(what)
    return Sym(what, wild=True)


class EnvironObj:
    def abs_getattr(self, it, a):
        if a == "get":
            return Native(lambda k, d=None: nondet_str("os.environ[%r]" % (k,)), "os.environ.get")
        raise Unsupported("os.environ.%s" % a)

    def abs_getitem(self, k):
        return nondet_str("os.environ[%r]" % (k,))


def stdlib_copy(it):
    def deepcopy(v, memo=None):
        from .absint import SDict, SSet
        memo = {} if memo is None else memo
        if id(v) in memo:
            return memo[id(v)]
        if isinstance(v, Inst):
            n = Inst(v.cls)
            memo[id(v)] = n
            n.d = {k: deepcopy(x, memo) for k, x in v.d.items()}
            return n
        if isinstance(v, SDict):
            n = SDict()
            memo[id(v)] = n
            for k in dict.keys(v):
                dict.__setitem__(n, k, deepcopy(dict.__getitem__(v, k), memo))
                n.orig[k] = v.orig[k]
            return n
        if isinstance(v, dict):
            n = {}
            memo[id(v)] = n
            for k, x in v.items():
                n[k] = deepcopy(x, memo)
            return n
        if isinstance(v, list):
            n = []
            memo[id(v)] = n
            n.extend(deepcopy(x, memo) for x in v)
            return n
        if isinstance(v, SSet):
            return SSet([deepcopy(x, memo) for x in v.items])
        if isinstance(v, tuple):
            return tuple(deepcopy(x, memo) for x in v)
        return v

    def shallow(v):
        from .absint import SDict, SSet
        if isinstance(v, Inst):
            n = Inst(v.cls)
            n.d = dict(v.d)
            return n
        if isinstance(v, SDict):
            return v.copy_()
        if isinstance(v, dict):
            return dict(v)
        if isinstance(v, list):
            return list(v)
        if isinstance(v, SSet):
            return SSet(v.items)
        return v
    return {"deepcopy": Native(deepcopy, "copy.deepcopy"), "copy": Native(shallow, "copy.copy")}


def stdlib_html(it):
    def escape(s, quote=True):
        s = simplify(s)
        if isinstance(s, str):
            import html
            return html.escape(s, quote)
        parts = []
        for p in as_tmpl(s).parts:
            if isinstance(p, str):
                import html
                parts.append(html.escape(p, quote))
            elif isinstance(p, Sym) and p.wild:
                n = Sym("escape(%s)" % p.tag, prov=("derived", "html.escape", p), wild=True)
                n.escaped = ("html", quote)
                n.escapes = tuple(getattr(p, "escapes", ()))
                n.derived_from = Tmpl([p])
                for k, v in p.preds.items():
                    if k.startswith("contains") and not any(c in k for c in "<>&"):
                        n.preds[k] = v
                parts.append(n)
            else:
                parts.append(p)
        return simplify(Tmpl(parts))

    def unescape(s):
        return s  # spec text after entity decoding is again arbitrary text
    return {"escape": Native(escape, "html.escape"), "unescape": Native(unescape, "html.unescape")}


def stdlib_abc(it):
    return {"ABC": UClass("ABC", [], {}), "abstractmethod": Native(lambda f: f, "abstractmethod"),
            "abstractproperty": Native(lambda f: Prop(f), "abstractproperty")}


def stdlib_et(it):
    def parse(path):
        fs = World.trace.get("fs")
        if fs is None:
            raise Unsupported("ElementTree.parse without an abstract file system")
        return TreeObj(fs.parse(path))
    return {"Element": UClass("Element", [], {}), "parse": Native(parse, "ElementTree.parse"),
            "ElementTree": Module("xml.etree.ElementTree.ElementTree")}


class TreeObj:
    def __init__(self, root):
        self.root = root

    def abs_getattr(self, it, a):
        if a == "getroot":
            return Native(lambda: self.root, "ElementTree.getroot")
        raise Unsupported("ElementTree.%s" % a)


def stdlib_pathlib(it):
    return {"Path": Native(lambda *p: PathObj(p_join(*p) if len(p) > 1 else (p[0] if p else ".")), "Path"),
            "PurePosixPath": Native(lambda *p: PathObj(p_join(*p) if len(p) > 1 else p[0]), "PurePosixPath")}


def stdlib_collections(it):
    from .absint import SDict
    return {"namedtuple": Native(lambda *a, **k: None, "namedtuple"), "OrderedDict": Native(lambda *a: SDict(), "OrderedDict"),
            "defaultdict": Native(lambda *a: SDict(), "defaultdict")}


def stdlib_typing(it):
    anyt = Native(lambda *a, **k: None, "typing")
    return {k: anyt for k in ("Optional", "List", "Dict", "Tuple", "Set", "Union", "Any", "Iterable", "Callable", "cast", "Type", "Sequence")}


def stdlib_nondet(modname, names):
    def make(it):
        return {n: Native(lambda *a, _n=n, **k: nondeterministic("%s.%s()" % (modname, _n)), "%s.%s" % (modname, n)) for n in names}
    return make


STDLIB = {
    "os": stdlib_os,
    "os.path": lambda it: stdlib_os(it)["path"].env,
    "copy": stdlib_copy,
    "html": stdlib_html,
    "abc": stdlib_abc,
    "xml": lambda it: {"etree": Module("xml.etree")},
    "xml.etree": lambda it: {"ElementTree": Module("xml.etree.ElementTree")},
    "xml.etree.ElementTree": stdlib_et,
    "pathlib": stdlib_pathlib,
    "collections": stdlib_collections,
    "typing": stdlib_typing,
    "random": stdlib_nondet("random", ["random", "randrange", "randint", "choice", "shuffle", "sample"]),
    "time": stdlib_nondet("time", ["time", "monotonic", "perf_counter", "strftime", "localtime"]),
    "datetime": stdlib_nondet("datetime", ["datetime", "date"]),
    "uuid": stdlib_nondet("uuid", ["uuid4", "uuid1"]),
    "functools": lambda it: {"lru_cache": Native(lambda *a, **k: (a[0] if a and isinstance(a[0], Func) else Native(lambda f: f, "deco")), "lru_cache"),
                             "cache": Native(lambda f: f, "cache")},
    "itertools": lambda it: {"chain": Native(lambda *xs: [y for x in xs for y in it.iterate(x)], "chain")},
    "re": lambda it: {},
    "sys": lambda it: {"argv": [], "stderr": None, "stdout": None},
    "shutil": lambda it: {"rmtree": Native(lambda *a, **k: None, "rmtree")},
    "argparse": lambda it: {"ArgumentParser": Native(lambda *a, **k: None, "ArgumentParser")},
    "contextlib": lambda it: {"suppress": Native(lambda *a: None, "suppress")},
}


# The two case converters walk their argument character by character; on symbolic names they are
# modelled as uninterpreted, provenance-preserving functions (on concrete names the real code is interpreted).
OVERRIDES = {
    ("protocol_code_generator.util.name_utils", "pascal_case_to_snake_case"): lambda it, name: derived("snake", name),
    ("protocol_code_generator.util.name_utils", "snake_case_to_pascal_case"): lambda it, name: derived("Pascal", name),
}
