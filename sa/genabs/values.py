"""Engine C, values: symbolic strings (provenance-carrying), templates, symbolic ints, the
interpreter's object model and abstract XML elements."""
import itertools

from ..core import AnalysisError


class Unsupported(AnalysisError):
    """The generator left the Python subset the evaluator interprets (exit 2, never a verdict)."""


class PyRaise(Exception):
    def __init__(self, exc, node=None):
        Exception.__init__(self, repr(exc))
        self.exc = exc
        self.node = node


class Chooser:
    """Replay of boolean choices; an unseen choice defaults to False and is explored later."""

    def __init__(self, vec=()):
        self.vec = list(vec)
        self.pos = 0
        self.log = []

    def choose(self, key):
        if self.pos < len(self.vec):
            v = self.vec[self.pos]
        else:
            v = False
            self.vec.append(v)
        self.pos += 1
        self.log.append((key, v))
        return v


class World:
    """Per-evaluation mutable context."""
    chooser = None
    trace = None  # list of notable events


def choose(key):
    return World.chooser.choose(key)


# predicates that imply others:  (pred, value) -> {pred: value}
IMPLIES = {
    ("isdigit", True): {"isint": True, "== 'true'": False, "== 'false'": False, "== 'None'": False},
    ("isint", False): {"isdigit": False},
    ("== 'true'", True): {"isdigit": False, "isint": False, "== 'false'": False, "lower== 'true'": True},
    ("== 'false'", True): {"isdigit": False, "isint": False, "== 'true'": False, "lower== 'true'": False},
    ("lower== 'true'", False): {"== 'true'": False},
}


class Sym:
    """An atomic piece of spec text: non-empty, no whitespace/newline; free of '.', ':', quotes and
    backslashes unless its `wild` flag says it is arbitrary text (hardcoded values, comments)."""
    _n = itertools.count()

    def __init__(self, tag, prov=None, preds=None, wild=False):
        self.tag = tag
        self.prov = prov or tag
        self.preds = {}
        self.wild = wild
        self.id = next(Sym._n)
        for k, v in (preds or {}).items():
            self.set_pred(k, v)

    def set_pred(self, name, value):
        self.preds[name] = value
        for k, v in IMPLIES.get((name, value), {}).items():
            self.preds.setdefault(k, v)

    def pred(self, name):
        if name not in self.preds:
            self.set_pred(name, choose(("pred", self.tag, name)))
        return self.preds[name]

    def __repr__(self):
        return "<%s>" % self.tag


class Tmpl:
    """Template: sequence of literal text and symbols (holes)."""

    def __init__(self, parts):
        out = []
        for p in parts:
            if isinstance(p, Tmpl):
                for q in p.parts:
                    Tmpl._push(out, q)
            else:
                Tmpl._push(out, p)
        self.parts = out

    @staticmethod
    def _push(out, p):
        if isinstance(p, str):
            if p == "":
                return
            if out and isinstance(out[-1], str):
                out[-1] += p
            else:
                out.append(p)
        elif isinstance(p, (Sym, SymInt)):
            out.append(p)
        else:
            raise Unsupported("template part %r" % (p,))

    def text(self):
        return "".join(p if isinstance(p, str) else HOLE_L + hole_name(p) + HOLE_R for p in self.parts)

    def syms(self):
        return [p for p in self.parts if not isinstance(p, str)]

    def __repr__(self):
        return "T(%r)" % self.text()


HOLE_L, HOLE_R = "⟨", "⟩"


def hole_name(p):
    if isinstance(p, Sym):
        return "%s#%d" % (p.tag, p.id)
    return "int:%s" % p.expr


class SymInt:
    """Symbolic integer (opaque expression)."""

    def __init__(self, expr, src=None, lo=None, hi=None):
        self.expr = expr
        self.src = src  # the Sym it was parsed from, if any
        self.lo, self.hi = lo, hi  # known bounds (e.g. the length of non-empty text is >= 1)

    def __repr__(self):
        return "<int %s>" % self.expr


def is_strlike(v):
    return isinstance(v, (str, Sym, Tmpl))


def as_tmpl(v):
    if isinstance(v, Tmpl):
        return v
    if isinstance(v, (str, Sym, SymInt)):
        return Tmpl([v])
    raise Unsupported("not string-like: %r" % (v,))


def simplify(v):
    """Collapse a template that is all-literal or a single symbol."""
    if isinstance(v, Tmpl):
        if not v.parts:
            return ""
        if len(v.parts) == 1 and isinstance(v.parts[0], (str, Sym)):
            return v.parts[0]
    return v


def concat(a, b):
    if isinstance(a, str) and isinstance(b, str):
        return a + b
    return simplify(Tmpl([as_tmpl(a), as_tmpl(b)]))


def skey(v):
    """Hashable key for dict/set membership of string-like values."""
    v = simplify(v)
    if isinstance(v, str):
        return v
    if isinstance(v, Sym):
        return ("sym", v.id)
    if isinstance(v, Tmpl):
        return ("tmpl", tuple(p if isinstance(p, str) else ("sym", getattr(p, "id", id(p))) for p in v.parts))
    if isinstance(v, SymInt):
        return ("symint", v.expr)
    if isinstance(v, Elem):
        return ("elem", id(v))
    if isinstance(v, (int, bool, type(None), tuple)):
        return v
    if isinstance(v, Inst):
        return ("inst", id(v))
    raise Unsupported("unhashable key %r" % (v,))


def str_eq(a, b):
    a, b = simplify(a), simplify(b)
    if isinstance(a, str) and isinstance(b, str):
        return a == b
    if isinstance(a, Sym) and isinstance(b, Sym):
        return a is b  # distinct symbols are distinct names (the equal-name case is its own shape)
    if isinstance(a, Sym) and isinstance(b, str):
        return sym_eq_lit(a, b)
    if isinstance(b, Sym) and isinstance(a, str):
        return sym_eq_lit(b, a)
    ta, tb = as_tmpl(a), as_tmpl(b)
    if skey(ta) == skey(tb):
        return True
    return False


def sym_eq_lit(s, lit):
    if lit == "":
        return False
    if not s.wild and any(c in lit for c in " \n\t.:\"'\\"):
        return False
    if lit in ("true", "false", "None"):
        return s.pred("== %r" % lit)
    if lit.isdigit():
        if s.preds.get("isdigit") is False:
            return False
        return s.pred("== %r" % lit)
    if s.preds.get("isdigit") is True:
        return False
    if not s.wild and s.preds.get("vocab") is False:
        return False
    return s.pred("== %r" % lit)


# ---------------------------------------------------------------- object model
class Module:
    def __init__(self, name):
        self.name = name
        self.env = {}


class Func:
    def __init__(self, node, env, module, cls=None, kind="plain"):
        self.node, self.env, self.module, self.cls, self.kind = node, env, module, cls, kind

    def __repr__(self):
        return "<func %s>" % getattr(self.node, "name", "lambda")


class Bound:
    def __init__(self, func, self_):
        self.func, self.self_ = func, self_


class Native:
    def __init__(self, fn, name="native"):
        self.fn, self.name = fn, name

    def __repr__(self):
        return "<native %s>" % self.name


class Prop:
    def __init__(self, fget, fset=None):
        self.fget, self.fset = fget, fset


class UClass:
    def __init__(self, name, bases, ns, module=None):
        self.name, self.bases, self.ns, self.module = name, bases, ns, module

    def mro(self):
        out = [self]
        for b in self.bases:
            if isinstance(b, UClass):
                for c in b.mro():
                    if c not in out:
                        out.append(c)
        return out

    def lookup(self, attr):
        for c in self.mro():
            if attr in c.ns:
                return c.ns[attr]
        return None

    def __repr__(self):
        return "<class %s>" % self.name


class Inst:
    def __init__(self, cls):
        self.cls = cls
        self.d = {}

    def __repr__(self):
        return "<%s instance>" % self.cls.name


class ExcClass:
    def __init__(self, name, base=None):
        self.name, self.base = name, base

    def isa(self, other):
        c = self
        while c is not None:
            if c is other or c.name == other.name:
                return True
            c = c.base
        return False


class ExcObj:
    def __init__(self, cls, args):
        self.cls, self.args = cls, args

    def __repr__(self):
        def show(x):
            return x.text() if isinstance(x, Tmpl) else repr(x)
        return "%s(%s)" % (self.cls.name, ", ".join(show(x) for x in self.args))


class Elem:
    """Abstract XML element."""

    def __init__(self, tag, attrs=None, children=None, text=None, comment=None):
        self.tag = tag
        self.attrs = dict(attrs or {})
        self.children = list(children or [])
        self.text = text
        self.tail = None
        if comment is not None:
            self.children.insert(0, Elem("comment", text=comment))

    def __repr__(self):
        return "<%s %s>" % (self.tag, " ".join("%s=%s" % (k, v if isinstance(v, str) else repr(v)) for k, v in self.attrs.items()))

    def xml(self, indent=0):
        def show(v):
            v = simplify(v)
            return v if isinstance(v, str) else as_tmpl(v).text()
        pad = "  " * indent
        attrs = "".join(' %s="%s"' % (k, show(v)) for k, v in self.attrs.items())
        inner = [c.xml(indent + 1) for c in self.children]
        txt = show(self.text) if self.text is not None else ""
        if not inner and not txt:
            return "%s<%s%s/>" % (pad, self.tag, attrs)
        if not inner:
            return "%s<%s%s>%s</%s>" % (pad, self.tag, attrs, txt, self.tag)
        return "%s<%s%s>%s\n%s\n%s</%s>" % (pad, self.tag, attrs, txt, "\n".join(inner), pad, self.tag)
