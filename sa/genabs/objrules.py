"""Engine C-2: rules on the constructor, the deserializer's tail and value flow of an emitted class."""
import ast

from . import skel


def init_facts(cls):
    """__init__ of an emitted class: parameters (with defaults) and the ordered self-assignments."""
    init = skel.methods_of(cls).get("__init__")
    if init is None:
        return None
    a = init.args
    params = {}
    for p, d in zip(a.kwonlyargs, a.kw_defaults):
        params[p.arg] = ("kwonly", d)
    pos = a.args[1:]
    defaults = [None] * (len(pos) - len(a.defaults)) + list(a.defaults)
    for p, d in zip(pos, defaults):
        params[p.arg] = ("positional", d)
    assigns = []
    for st in skel.no_doc(init.body):
        if isinstance(st, ast.Assign) and len(st.targets) == 1 and skel.is_attr(st.targets[0], "self", getattr(st.targets[0], "attr", "")):
            assigns.append((st.targets[0].attr, st.value, st))
        elif isinstance(st, ast.Pass):
            pass
        else:
            assigns.append((None, None, st))
    return init, params, assigns


def optional_params(params):
    return {n for n, (_, d) in params.items() if isinstance(d, ast.Constant) and d.value is None}


def none_flow(cls):
    """Optional values (parameters defaulting to None, or fields assigned from them) must not flow into
    tuple()/len()/iteration/subscript/attribute access without a dominating None test."""
    facts = init_facts(cls)
    if facts is None:
        return []
    init, params, assigns = facts
    opt = optional_params(params)
    maybe_none = set(opt)  # local names
    maybe_none_attr = set()  # self attributes
    findings = []

    def is_guarded(e, name_expr):
        return False

    for attr, val, st in assigns:
        if attr is None:
            continue
        for n in ast.walk(val):
            if isinstance(n, ast.Call) and isinstance(n.func, ast.Name) and n.func.id in ("tuple", "len", "list", "sorted", "iter") and n.args:
                arg = n.args[0]
                bad = None
                if isinstance(arg, ast.Name) and arg.id in maybe_none:
                    bad = arg.id
                elif skel.is_attr(arg, "self", getattr(arg, "attr", "")) and arg.attr in maybe_none_attr:
                    bad = "self." + arg.attr
                if bad and not _under_none_test(val, n, bad):
                    findings.append(("None-flow", "__init__", "[%s-of-optional] %s(%s): %s may be None (optional, default None) -- TypeError "
                                     "when the optional value is absent" % (n.func.id, n.func.id, ast.unparse(arg), bad)))
        # propagate: self._x = x  (x maybe None)  => self._x maybe None
        if isinstance(val, ast.Name) and val.id in maybe_none:
            maybe_none_attr.add(attr)
        elif isinstance(val, ast.IfExp) or isinstance(val, ast.BoolOp):
            if any(isinstance(x, ast.Name) and x.id in maybe_none for x in ast.walk(val)):
                maybe_none_attr.add(attr)
        elif isinstance(val, ast.Call) and isinstance(val.func, ast.Name) and val.func.id == "tuple" and val.args and \
                isinstance(val.args[0], ast.Name) and val.args[0].id in maybe_none:
            maybe_none_attr.add(attr)
    return findings


def _under_none_test(root, node, name):
    """Is `node` inside the not-None arm of a conditional expression testing `name`?"""
    for n in ast.walk(root):
        if isinstance(n, ast.IfExp):
            t = ast.unparse(n.test)
            if t in ("%s is not None" % name, "%s is None" % name):
                arm = n.body if "is not" in t else n.orelse
                if any(x is node for x in ast.walk(arm)):
                    return True
        if isinstance(n, ast.BoolOp) and isinstance(n.op, ast.And) and len(n.values) >= 2:
            first = ast.unparse(n.values[0])
            if first in ("%s is not None" % name,) and any(x is node for v in n.values[1:] for x in ast.walk(v)):
                return True
    return False


def ctor_rules(cname, cls, scope):
    """Constructor agrees with the reference scope: one keyword-only parameter per non-length field (and case
    data), hardcoded fields included; length fields are not parameters but derived from their referent."""
    out = []
    facts = init_facts(cls)
    if facts is None:
        return [("ctor", cname, "no __init__")]
    init, params, assigns = facts
    want = list(scope.ctor)
    got = list(params)
    if got != want:
        out.append(("ctor", cname, "constructor parameters %s, fields declared %s" % (got, want)))
    for n, (kind, d) in params.items():
        if kind != "kwonly":
            out.append(("ctor", cname, "parameter %s is positional" % n))
    assigned = {}
    for attr, val, st in assigns:
        if attr is None:
            out.append(("ctor", cname, "unexpected statement in __init__: %s" % ast.unparse(st)[:60]))
            continue
        assigned.setdefault(attr, []).append(val)
    for f in want:
        if "_" + f not in assigned:
            out.append(("ctor", cname, "field %s is never stored" % f))
    for ln, ref in scope.derived_lengths.items():
        vals = assigned.get("_" + ln, [])
        ok = len(vals) == 1 and _is_len_of(vals[0], "_" + ref)
        if not ok:
            out.append(("ctor", cname, "length field %s is not derived from len(%s): %s"
                        % (ln, ref, [ast.unparse(v) for v in vals] or "never assigned")))
        # it must be assigned after its referent
        order = [a for a, _, _ in assigns]
        if "_" + ln in order and "_" + ref in order and order.index("_" + ln) < order.index("_" + ref):
            out.append(("ctor", cname, "length field %s is derived before %s is stored" % (ln, ref)))
    return out


def ctor_store_rules(cname, cls):
    """The guards in serialize test the stored field (`data._x is None`, `len(data._x)`): the constructor has to store
    what it was given -- the parameter itself, or tuple(parameter) for arrays -- and may at most keep None as None.
    A conversion (bool(x), int(x), str(x), x or default) makes an absent or ill-typed argument look valid."""
    out = []
    facts = init_facts(cls)
    if facts is None:
        return out
    init, params, assigns = facts

    def plain(e, p):
        if isinstance(e, ast.Name) and e.id == p:
            return True
        return isinstance(e, ast.Call) and isinstance(e.func, ast.Name) and e.func.id == "tuple" and len(e.args) == 1 and not e.keywords \
            and isinstance(e.args[0], ast.Name) and e.args[0].id == p

    def is_none_test(t, p):
        return isinstance(t, ast.Compare) and len(t.ops) == 1 and isinstance(t.left, ast.Name) and t.left.id == p \
            and isinstance(t.comparators[0], ast.Constant) and t.comparators[0].value is None

    for attr, val, st in assigns:
        if attr is None or not attr.startswith("_"):
            continue
        p = attr[1:]
        if p not in params:
            continue  # derived (length fields) or constant (hardcoded values, byte_size)
        used = {n.id for n in ast.walk(val) if isinstance(n, ast.Name)}
        if p not in used:
            continue  # hardcoded literal
        ok = plain(val, p)
        if not ok and isinstance(val, ast.IfExp) and is_none_test(val.test, p):
            is_ = isinstance(val.test.ops[0], ast.Is)
            none_arm, other = (val.body, val.orelse) if is_ else (val.orelse, val.body)
            ok = isinstance(none_arm, ast.Constant) and none_arm.value is None and plain(other, p)
        if not ok:
            out.append(("ctor", cname, "[ctor-alters-argument] __init__ stores %s for parameter %s: the guards of serialize() see the "
                        "converted value, not what the caller passed" % (ast.unparse(val)[:60], p)))
    return out


def _is_len_of(v, attr):
    def direct(e):
        return isinstance(e, ast.Call) and isinstance(e.func, ast.Name) and e.func.id == "len" and len(e.args) == 1 and skel.is_attr(e.args[0], "self", attr)
    if direct(v):
        return True
    if isinstance(v, ast.IfExp):
        arms = [v.body, v.orelse]
        return any(direct(a) for a in arms) and all(direct(a) or (isinstance(a, ast.Constant) and a.value in (None, 0)) for a in arms)
    return False


def tail_rules(cname, view, scope):
    """deserialize: start position saved before the first read, result built from exactly the fields read,
    byte_size = position delta, result returned."""
    out = []
    r = view.r
    if r.start_var is None:
        out.append(("tail", cname, "reader position is not saved at entry"))
    elif r.start_index != 0:
        out.append(("tail", cname, "reader position is saved after %d token(s) were already read" % r.start_index))
    if r.ctor is None:
        out.append(("tail", cname, "no result object is constructed"))
        return out
    var, cls_name, kwargs, npos = r.ctor
    if cls_name != cname:
        out.append(("tail", cname, "deserialize constructs %s" % cls_name))
    want = list(scope.ctor)
    if list(kwargs) != want or npos:
        out.append(("tail", cname, "constructor called with %s, fields %s" % (list(kwargs), want)))
    for k, v in kwargs.items():
        if k != v:
            out.append(("tail", cname, "field %s is built from local %s" % (k, v)))
    if r.byte_size is None:
        out.append(("tail", cname, "byte_size is never set"))
    else:
        target, expr = r.byte_size
        if target != var or expr != "%s.position - %s" % (r.reader, r.start_var):
            out.append(("tail", cname, "byte_size = %s on %s (expected position delta on the result)" % (expr, target)))
    if r.returns != var:
        out.append(("tail", cname, "returns %s" % r.returns))
    return out
