"""Engine C-2: S-ref / S-guard / S-read / S-mirror -- compare the grammar extracted from an emitted
class with the reference semantics of the shape's abstract XML, and the two extracted grammars
with each other."""
import ast
import re

from ..refs import wire_semantics as W
from . import skel, wire

GUARDS = ("none_guard", "len_guard", "case_type_guard", "case_none_guard")


def canon_names(x):
    """Escaped / case-folded variants of one piece of spec text are that text for the purposes of the grammar."""
    if isinstance(x, str):
        return re.sub(r"\bh_(?:replace_|escape_)+", "h_", x)
    if isinstance(x, tuple):
        return tuple(canon_names(y) for y in x)
    if isinstance(x, list):
        return [canon_names(y) for y in x]
    return x


def canon_write(tokens):
    return canon_names(_canon_write(tokens))


def _canon_write(tokens):
    out = []
    for t in tokens:
        if t[0] == "loop":
            out.append(("loop", t[1], _canon_write(t[2])))
        elif t[0] == "if_not_first":
            out.append(("if_not_first", _canon_write(t[1])))
        elif t[0] == "opt":
            out.append(("opt", tuple(t[1]), _canon_write(t[2])))
        elif t[0] == "dummy_guard":
            out.append(("dummy_guard", _canon_write(t[1]), t[2]))
        elif t[0] == "switch":
            out.append(("switch", t[1], [(c, _canon_write(b)) for c, b in t[2]]))
        else:
            out.append(t)
    return out


def strip_guards(tokens):
    out = []
    for t in tokens:
        if t[0] in GUARDS:
            continue
        if t[0] == "loop":
            out.append(("loop", t[1], strip_guards(t[2])))
        elif t[0] in ("if_not_first",):
            out.append((t[0], strip_guards(t[1])))
        elif t[0] == "opt":
            out.append(("opt", t[1], strip_guards(t[2])))
        elif t[0] == "dummy_guard":
            out.append(("dummy_guard", strip_guards(t[1]), t[2]))
        elif t[0] == "switch":
            out.append(("switch", t[1], [(c, strip_guards(b)) for c, b in t[2]]))
        else:
            out.append(t)
    return out


def only_guards(tokens, pos=""):
    """Guards with the position (index path of the next write token) they protect."""
    out = []
    for i, t in enumerate(tokens):
        here = "%s/%d" % (pos, len([x for x in tokens[:i] if x[0] not in GUARDS]))
        if t[0] in GUARDS:
            out.append((here,) + tuple(t))
        elif t[0] == "loop":
            out += only_guards(t[2], here + ":loop")
        elif t[0] == "opt":
            out += only_guards(t[2], here + ":opt")
        elif t[0] == "dummy_guard":
            out += only_guards(t[1], here + ":dummy")
        elif t[0] == "switch":
            for k, (c, b) in enumerate(t[2]):
                out += only_guards(b, here + ":arm%d" % k)
    return out


def canon_read(tokens, counts=None):
    counts = {} if counts is None else counts
    out = []
    for t in tokens:
        if t[0] == "count_var":
            counts[t[1]] = True
            out.append(("count_var", "$count", t[2]))
        elif t[0] == "for":
            n = "$count" if t[1] in counts else t[1]
            out.append(("for", n, canon_read(t[2], counts)))
        elif t[0] in ("if_remaining", "while_remaining", "if_not_last"):
            out.append((t[0], canon_read(t[1], counts)))
        elif t[0] == "dummy_guard":
            out.append(("dummy_guard", canon_read(t[1], counts), t[2]))
        elif t[0] == "switch":
            out.append(("switch", t[1], [(c, canon_read(b, counts)) for c, b in t[2]]))
        else:
            out.append(t)
    return out


def first_diff(a, b, path=""):
    if isinstance(a, (list, tuple)) and isinstance(b, (list, tuple)) and type(a) is type(b):
        for i, (x, y) in enumerate(zip(a, b)):
            d = first_diff(x, y, "%s[%d]" % (path, i))
            if d:
                return d
        if len(a) != len(b):
            longer, which = (a, "emitted") if len(a) > len(b) else (b, "reference")
            return "%s: %s has extra %r" % (path or "top", which, longer[min(len(a), len(b))])
        return None
    if a != b:
        return "%s: emitted %r, reference %r" % (path or "top", a, b)
    return None


class ClassView:
    def __init__(self, cname, cls):
        self.cname = cname
        ms = skel.methods_of(cls)
        self.ms = ms
        self.err = None
        try:
            self.w = wire.WriteGrammar(ms["serialize"], cname)
            self.r = wire.ReadGrammar(ms["deserialize"], cname)
        except KeyError as e:
            self.err = "method %s missing" % e
        except wire.Unrecognised as e:
            self.err = str(e)


def views(sk):
    return {cname: ClassView(cname, cls) for cname, cls in skel.classes_of(sk.tree())}


def reference_for(shape, placement):
    decls, body, _ = shape.make(placement)()
    return W.expect_scope(body, "T")


def flatten_scopes(sc):
    out = {sc.class_name: sc}
    for n, s in sc.nested.items():
        out.update(flatten_scopes(s))
    return out


# ---------------------------------------------------------------- S-mirror: write grammar vs read grammar, directly
def mirror(wt, rt, path=""):
    """Lockstep walk of canonical write tokens and read tokens under the inverse table; returns the first
    discrepancy or None.  Guards and optional-variable definitions on the write side have no counterpart."""
    w = [t for t in wt if t[0] not in GUARDS and t[0] != "optvar"]
    r = list(rt)
    i = j = 0
    while i < len(w) or j < len(r):
        if i >= len(w):
            return "%s: reader has extra %r" % (path, r[j])
        t = w[i]
        if j >= len(r):
            return "%s: writer has extra %r" % (path, t)
        u = r[j]
        here = "%s[%d]" % (path, i)
        k = t[0]
        if k == "prim":
            d = _mirror_value(t, u, here)
            if d:
                return d
        elif k in ("str", "fixstr", "blob", "struct"):
            d = _mirror_value(t, u, here)
            if d:
                return d
        elif k == "break":
            if u != ("next_chunk",):
                return "%s: writer emits a break byte, reader does %r" % (here, u)
        elif k == "san":
            if u != ("mode", t[1]):
                return "%s: writer sets sanitisation %s, reader does %r" % (here, t[1], u)
        elif k == "opt":
            # reader: init_none X ; if_remaining [...]
            if u[0] != "init_none" or j + 1 >= len(r) or r[j + 1][0] != "if_remaining":
                return "%s: optional write has no `X = None; if remaining > 0` counterpart (%r)" % (here, u)
            d = mirror(t[2], r[j + 1][1], here + ":opt")
            if d:
                return d
            j += 1
        elif k == "loop":
            # reader: [count_var] init_list ; for/while
            divisor = None
            if u[0] == "count_var":
                divisor = u[2]
                j += 1
                u = r[j]
            if u[0] != "init_list" or j + 1 >= len(r) or r[j + 1][0] not in ("for", "while_remaining"):
                return "%s: array write has no list-building loop counterpart (%r)" % (here, u)
            loop = r[j + 1]
            rb = loop[2] if loop[0] == "for" else loop[1]
            d = _mirror_loop(t, loop, rb, here)
            if d:
                return d
            if divisor is not None:
                # count = remaining / divisor is the number of elements written only if every element occupies
                # exactly `divisor` bytes
                elems = [x for x in rb if x[0] == "append"]
                core = _core(elems[0][2])[0] if elems else None
                size = None
                what = "?"
                if core and core[0] == "prim":
                    size, what = W.INT_WIDTH.get(core[1]), core[1]
                elif core and core[0] == "struct":
                    size, what = (W.DECLARED.get(core[1]) or {}).get("fixed"), "struct %s" % core[1]
                if size is None or str(size) != str(divisor):
                    return ("%s: the element count is computed as remaining / %s, but an element (%s) %s"
                            % (here, divisor, what, "has no fixed size" if size is None else "occupies %s bytes" % size))
            j += 1
        elif k == "dummy_guard":
            if u[0] != "dummy_guard":
                return "%s: guarded dummy write, reader does %r" % (here, u)
            if not (t[2] and u[2]):
                return "%s: dummy guard does not compare with the length/position saved at entry" % here
            d = mirror(t[1], u[1], here + ":dummy")
            if d:
                return d
        elif k == "switch":
            if u[0] == "init_none":
                j += 1
                u = r[j] if j < len(r) else ("<end>",)
            if u[0] != "switch":
                return "%s: switch write, reader does %r" % (here, u)
            if "_" + u[1] != t[1]:
                return "%s: writer switches on %s, reader on %s" % (here, t[1], u[1])
            if len(t[2]) != len(u[2]):
                return "%s: %d write arms, %d read arms" % (here, len(t[2]), len(u[2]))
            for n, ((wc, wb), (rc, rb)) in enumerate(zip(t[2], u[2])):
                if wc != rc:
                    return "%s arm %d: writer tests %r, reader %r" % (here, n, wc, rc)
                wbs = [x for x in wb if x[0] not in GUARDS]
                if not wbs:
                    if [x for x in rb if x[0] != "init_none"]:
                        return "%s arm %d: nothing written but reader does %r" % (here, n, rb)
                else:
                    d = mirror(wbs, rb, here + ":arm%d" % n)
                    if d:
                        return d
        else:
            return "%s: unknown write token %r" % (here, t)
        i += 1
        j += 1
    return None


def _core(u):
    wraps = []
    while isinstance(u, tuple) and u and u[0] == "wrap":
        wraps.append(u[1])
        u = u[2]
    return u, wraps


def _mirror_value(t, u, here):
    if u[0] not in ("read", "append"):
        return "%s: value write %r, reader does %r" % (here, t[:2], u)
    target, core = u[1], u[2]
    core, wraps = _core(core)
    k = t[0]
    val = t[2] if k in ("prim", "str", "fixstr") else t[1] if k == "blob" else t[2]
    # unwrap the written value
    wwraps = []
    v = val
    while isinstance(v, tuple):
        if v[0] in ("int", "b2i"):
            wwraps.append(v[0])
            v = v[1]
        elif v[0] == "off":
            wwraps.append(("off", v[2], v[3]))
            v = v[1]
        else:
            break
    if k == "prim":
        if core[0] != "prim" or core[1] != t[1]:
            return "%s: writes a %s, reads %r" % (here, t[1], core)
    elif k == "str":
        if core != ("str", t[1]):
            return "%s: writes %s string, reads %r" % (here, "an encoded" if t[1] else "a plain", core)
    elif k == "fixstr":
        if core[0] != "fixstr" or core[1] != t[1] or core[3] != t[4]:
            return "%s: fixed string (encoded=%s, padded=%s) read as %r" % (here, t[1], t[4], core)
        wl, rl = t[3], core[2]
        if not (wl == rl or wl == "data._" + rl):
            return "%s: fixed string written with length %s, read with length %s" % (here, wl, rl)
    elif k == "blob":
        if core[0] != "blob":
            return "%s: blob read as %r" % (here, core)
    elif k == "struct":
        if core != ("struct", t[1]):
            return "%s: writes struct %s, reads %r" % (here, t[1], core)
    # wrappers must be inverse of each other
    inv = {"int": "enum", "b2i": "neq0"}
    want = []
    for ww in wwraps:
        if isinstance(ww, tuple):
            want.append(("off", "+" if ww[1] == "-" else "-", ww[2]))
        else:
            want.append(inv[ww])
    got = []
    for rw in wraps:
        if isinstance(rw, tuple) and rw[0] == "enum":
            got.append("enum")
        elif isinstance(rw, tuple) and rw[0] == "off":
            got.append(("off", rw[1], rw[2]))
        elif isinstance(rw, tuple) and rw[0] == "test":
            # a truth test other than "!= 0": it inverts the writer's 1 / 0 when it is right at those two numbers
            d = dict(rw[1])
            got.append("neq0" if d.get(0) is False and d.get(1) is True else rw)
        else:
            got.append(rw)
    if sorted(map(repr, want)) != sorted(map(repr, got)):
        return "%s: value written through %r but read back through %r (inverse expected: %r)" % (here, wwraps, wraps, want)
    # same field on both sides
    if isinstance(v, str) and v.startswith("data._"):
        fld = v[len("data._"):].split("[")[0]
        if target != fld:
            return "%s: writes field %s, reader assigns %s" % (here, fld, target)
    elif target is not None:
        return "%s: hardcoded value written but reader binds %s" % (here, target)
    return None


def _mirror_loop(t, loop, rb, here):
    wbody = [x for x in t[2] if x[0] not in GUARDS]
    sep = [x for x in wbody if x[0] == "if_not_first"]
    trail = wbody[-1] == ("break",) if wbody else False
    welem = [x for x in wbody if x[0] != "if_not_first" and x != ("break",)]
    relem = [x for x in rb if x[0] == "append"]
    rchunk_guarded = [x for x in rb if x[0] == "if_not_last"]
    rchunk_plain = [x for x in rb if x == ("next_chunk",)]
    if len(welem) != 1 or len(relem) != 1:
        return "%s: loop bodies are not one element each (%r / %r)" % (here, wbody, rb)
    d = _mirror_value(welem[0], relem[0], here + ":elem")
    if d:
        return d
    count = t[1]
    counted = loop[0] == "for"
    if sep:
        # separator between elements: reader advances between elements only (guarded in a counted loop,
        # unconditional in a remaining-driven loop where the last advance hits the end of data)
        if counted and not rchunk_guarded:
            return "%s: separating delimiters written, but the counted read loop advances after every element" % here
        if not counted and not rchunk_plain:
            return "%s: separating delimiters written, but the read loop never advances to the next chunk" % here
    elif trail:
        if not rchunk_plain:
            return "%s: trailing delimiter written after every element, but the read loop does not advance after every element" % here
    else:
        if rchunk_guarded or rchunk_plain:
            return "%s: no delimiter written, but the read loop calls next_chunk()" % here
    if counted and loop[1] == "$count" and (sep or trail):
        return ("%s: the element count is derived from the bytes remaining, which in chunked mode is only the current chunk, "
                "but every element is followed by a chunk delimiter: only the first element is read back" % here)
    if counted:
        n = loop[1]
        if count.startswith("len("):
            if n != "$count" and n not in ("$count",):
                # count unknown to the reader: only legal when derived from remaining
                if not n.endswith("_length") and n != "$count":
                    return "%s: writer loops over len(field), reader over %s" % (here, n)
        elif not (count == n or count == "data._" + n):
            return "%s: writer loops %s times, reader %s times" % (here, count, n)
    else:
        if not count.startswith("len("):
            return "%s: writer loops %s times, reader until the chunk is exhausted" % (here, count)
    return None
