"""Engine C-2, S-taint: free spec text inside emitted string literals must be escaped for that position."""
import ast

BACKSLASH = "\\"
DQ = '"'
TRIPLE_DQ = DQ * 3
TRIPLE_SQ = "'" * 3


def s_taint(sk):
    """Free spec text (hardcoded values, comments) placed inside a Python string literal / docstring must have been
    escaped for that position: backslashes, and the quote character(s) that delimit the literal.
    html.escape(quote=False) does neither."""
    wild = {i: info for i, info in sk.holes.items() if info["kind"] == "sym" and info["wild"]}
    if not wild:
        return []
    out = []
    lines = sk.text.splitlines()
    for n in ast.walk(sk.tree()):
        if not (isinstance(n, ast.Constant) and isinstance(n.value, str)):
            continue
        for ident, info in wild.items():
            if ident not in n.value:
                continue
            src_line = lines[n.lineno - 1] if n.lineno - 1 < len(lines) else ""
            triple = src_line.lstrip().startswith((TRIPLE_DQ, TRIPLE_SQ)) or (n.end_lineno or n.lineno) > n.lineno
            esc = {e[0] for e in info.get("escapes", [])}
            if triple:
                ok = BACKSLASH in esc and (TRIPLE_DQ in esc or DQ in esc)
                need = {BACKSLASH, TRIPLE_DQ}
            else:
                ok = BACKSLASH in esc and DQ in esc
                need = {BACKSLASH, DQ}
            if not ok:
                kind = "docstring" if triple else "string literal"
                out.append("[unescaped-text-in-%s] spec text %s (%s) is interpolated into a %s without escaping %s: a quote or backslash in "
                           "the XML yields a file that does not compile (or different text)"
                           % (kind.replace(" ", "-"), info["tag"], info.get("prov", ""), kind, sorted(need - esc)))
    return sorted(set(out))
