"""Engine C input space: the shape lattice of abstract specs (DESIGN appendix A).

A shape is a declarative description of one instruction (or a short sequence) in one
placement; from it come (a) the abstract XML handed to the interpreted generator and
(b) -- independently -- the reference semantics used by the S-ref / S-guard rules.
Names, literal lengths, hardcoded values, comments and case values are symbols.
"""
import itertools

from .values import Elem, Sym

INT_WIDTH = {"byte": 1, "char": 1, "short": 2, "three": 3, "int": 4}
INTS = list(INT_WIDTH)
VALID_TYPES = ["byte", "char", "short", "three", "int", "bool", "bool:short", "string", "encoded_string", "blob",
               "E", "E:short", "SF", "SB", "SU", "SC", "SP", "SX", "SW", "SK"]
BAD_TYPES = ["Nope", "a:b:c", "char:char", "char:short", "bool:string", "E:string", "SF:char", "bool:bool", "E:E"]

NOT_A_LITERAL = {"isdigit": False, "isint": False, "== 'true'": False, "== 'false'": False, "== 'None'": False,
                 "lower== 'true'": False, "vocab": False}


class Namer:
    def __init__(self):
        self.c = itertools.count()

    def name(self, tag):
        return Sym("%s%d" % (tag, next(self.c)), preds=NOT_A_LITERAL)

    def digits(self, tag):
        return Sym("%s%d" % (tag, next(self.c)), preds={"isdigit": True, "isint": True})

    def posint(self, tag):
        return Sym("%s%d" % (tag, next(self.c)), preds={"isdigit": True, "isint": True, "positive": True})

    def negint(self, tag):
        return Sym("%s%d" % (tag, next(self.c)), preds={"isdigit": False, "isint": True, "== 'true'": False, "== 'false'": False, "negative": True})

    def text(self, tag, **preds):
        p = {"contains '\\n'": False}
        p.update(preds)
        return Sym("%s%d" % (tag, next(self.c)), preds=p, wild=True)


def declarations():
    """The fixed environment of declared custom types every shape is evaluated in."""
    def f(name, type_, **kw):
        return Elem("field", dict({"name": name, "type": type_}, **kw))
    enum = Elem("enum", {"name": "E", "type": "char"},
                [Elem("value", {"name": "A"}, text="0"), Elem("value", {"name": "B"}, text="1"), Elem("value", {"name": "None"}, text="2")])
    sf = Elem("struct", {"name": "SF"}, [f("x", "char"), f("y", "short")])  # fixed size 3
    sb = Elem("struct", {"name": "SB"}, [Elem("length", {"name": "n", "type": "char"}), f("s", "string", length="n")])  # bounded, not fixed
    su = Elem("struct", {"name": "SU"}, [f("x", "char"), f("s", "string")])  # unbounded
    sc = Elem("struct", {"name": "SC"}, [Elem("chunked", {}, [f("s", "string"), Elem("break"), f("n", "short")])])  # chunked
    # fixed size through every construct that may appear in a fixed-size struct: padded and encoded fixed strings,
    # literal-length arrays, explicit default attributes, a dummy, bool/enum overrides
    sp = Elem("struct", {"name": "SP"}, [f("s", "string", length="4", padded="true"), f("c", "char")])  # fixed size 5
    sx = Elem("struct", {"name": "SX"}, [
        Elem("array", {"name": "a", "type": "short", "length": "2", "delimited": "false", "optional": "false"}),
        f("e", "encoded_string", length="3"), f("b", "bool:short", optional="false"), f("k", "E:three"),
        Elem("dummy", {"type": "char"}, text="0")])  # fixed size 4 + 3 + 2 + 3 + 1 = 13
    # containers whose leaves are all of fixed size: a struct with a switch or a chunked section never has a fixed size
    sw = Elem("struct", {"name": "SW"}, [f("k", "char"), Elem("switch", {"field": "k"}, [Elem("case", {"value": "1"}, [f("a", "short")])])])
    sk = Elem("struct", {"name": "SK"}, [Elem("chunked", {}, [f("x", "char"), f("y", "short")])])
    return [enum, sf, sb, su, sc, sp, sx, sw, sk]


TYPE_INFO = {  # kind, underlying width (ints/bool/enum), fixed size, bounded
    "byte": ("int", 1, 1, True), "char": ("int", 1, 1, True), "short": ("int", 2, 2, True), "three": ("int", 3, 3, True),
    "int": ("int", 4, 4, True), "bool": ("bool", 1, 1, True), "bool:short": ("bool", 2, 2, True),
    "string": ("string", None, None, False), "encoded_string": ("string", None, None, False), "blob": ("blob", None, None, False),
    "E": ("enum", 1, 1, True), "E:short": ("enum", 2, 2, True),
    "SF": ("struct", None, 3, True), "SB": ("struct", None, None, True), "SU": ("struct", None, None, False),
    "SC": ("struct", None, None, True),
    "SP": ("struct", None, 5, True), "SX": ("struct", None, 13, True),
    "SW": ("struct", None, None, True), "SK": ("struct", None, None, True),
}
UNDERLYING = {"bool": "char", "bool:short": "short", "E": "char", "E:short": "short"}


class Shape:
    """One abstract object: `pre` instructions establishing context, the `focus` instruction(s), a placement."""

    def __init__(self, key, desc, build):
        self.key = key  # hashable description
        self.desc = desc  # dict: the reference-side description of the focus instruction
        self.build = build  # Namer -> (pre elements, focus elements, post elements)

    def make(self, placement="top"):
        def mk():
            nm = Namer()
            pre, focus, post = self.build(nm)
            body = wrap(nm, pre + focus + post, placement)
            return declarations(), body, ""
        return mk

    def xml(self, placement="top"):
        _, body, _ = self.make(placement)()
        return "\n".join(e.xml() for e in body)

    def __repr__(self):
        return "Shape%r" % (self.key,)


PLACEMENTS = ["top", "chunked", "case", "chunked-in-case", "case-in-chunked"]


def wrap(nm, children, placement):
    if placement == "top":
        return children
    if placement == "chunked":
        return [Elem("chunked", {}, children)]
    k = nm.name("kind")
    sw = lambda body: [Elem("field", {"name": k, "type": "char"}), Elem("switch", {"field": k}, [Elem("case", {"value": nm.digits("cv")}, body)])]
    if placement == "case":
        return sw(children)
    if placement == "chunked-in-case":
        return sw([Elem("chunked", {}, children)])
    if placement == "case-in-chunked":
        return [Elem("chunked", {}, sw(children))]
    raise ValueError(placement)


def in_chunked(placement):
    return placement in ("chunked", "chunked-in-case", "case-in-chunked")


# ---------------------------------------------------------------- single-instruction shapes
def field_shapes(types=None, tier="quick"):
    types = types or VALID_TYPES
    opts = [None, "true", "false"]
    if tier == "thorough":
        combos = itertools.product(types, [True, False], opts, opts, [None, "digits", "ref"], [None, "digits", "true", "false", "text"])
    else:
        # quick: every attribute present/absent in full product, with one hardcoded literal that fits the type;
        # explicit defaults ("false") and ill-typed literals one at a time
        combos = []
        for t in types:
            kind = TYPE_INFO.get(t, ("?",))[0]
            lit = {"int": "digits", "bool": "true", "string": "text"}.get(kind, "digits")
            wrong = {"int": "text", "bool": "digits", "string": None}.get(kind, "text")
            for named, optional, padded, length, text in itertools.product([True, False], [None, "true"], [None, "true"],
                                                                          [None, "digits", "ref"], [None, lit]):
                combos.append((t, named, optional, padded, length, text))
            combos += [(t, True, "false", None, None, None), (t, True, None, "false", "digits", None), (t, True, "false", "false", "digits", None),
                       (t, True, None, None, None, wrong), (t, False, None, None, None, wrong), (t, True, None, None, "digits", lit),
                       (t, False, None, None, None, "false" if kind == "bool" else lit)]
        # a length that is an integer but not a string of digits ("-1", "+4"), and one that names nothing
        # concrete literal lengths against a concrete hardcoded string (0 is falsy: a favourite of `if length and ...`)
        combos += [("string", True, None, None, "zero", "abc"), ("string", False, None, None, "zero", "abc"), ("encoded_string", True, None, None, "zero", "abc"),
                   ("string", True, None, None, "two", "abc"), ("string", True, None, None, "three", "abc"), ("string", False, None, None, "three", "abc")]
        combos += [("string", True, None, None, "negint", None), ("encoded_string", True, None, "true", "negint", None),
                   ("string", True, None, None, "noref", None), ("string", True, "true", None, "negint", None)]
        combos = list(dict.fromkeys(c for c in combos if c[5] is not None or True))
    for t, named, optional, padded, length, text in combos:
        desc = dict(tag="field", type=t, named=named, optional=optional, padded=padded, length=length, text=text)

        def build(nm, d=desc):
            pre = []
            attrs = {"type": d["type"]}
            name = nm.name("f") if d["named"] else None
            if name is not None:
                attrs["name"] = name
            if d["optional"] is not None:
                attrs["optional"] = d["optional"]
            if d["padded"] is not None:
                attrs["padded"] = d["padded"]
            if d["length"] == "digits":
                attrs["length"] = nm.digits("L")
            elif d["length"] in ("zero", "two", "three"):
                attrs["length"] = {"zero": "0", "two": "2", "three": "3"}[d["length"]]
            elif d["length"] == "negint":
                attrs["length"] = nm.negint("L")
            elif d["length"] == "noref":
                attrs["length"] = nm.name("nowhere")
            elif d["length"] == "ref":
                n = nm.name("n")
                la = {"name": n, "type": "char"}
                if d["optional"] == "true":
                    la["optional"] = "true"
                pre.append(Elem("length", la))
                attrs["length"] = n
            txt = None
            if d["text"] == "abc":
                txt = "abc"
            if d["text"] == "digits":
                txt = nm.digits("v")
            elif d["text"] in ("true", "false"):
                txt = d["text"]
            elif d["text"] == "text":
                txt = nm.text("v", **{"isdigit": False, "isint": False, "== 'true'": False, "== 'false'": False})
            return pre, [Elem("field", attrs, text=txt)], []
        yield Shape(("field",) + tuple(desc[k] for k in ("type", "named", "optional", "padded", "length", "text")), desc, build)


def array_shapes(types=None, tier="quick"):
    types = types or VALID_TYPES
    opts = [None, "true", "false"]
    if tier == "thorough":
        combos = itertools.product(types, opts, opts, opts, [None, "digits", "ref"])
    else:
        combos = []
        for t in types:
            for optional, delimited, trailing, length in itertools.product([None, "true"], [None, "true"], [None, "false"], [None, "digits", "ref"]):
                combos.append((t, optional, delimited, trailing, length))
            combos += [(t, "false", None, None, None), (t, None, "false", None, None), (t, None, "true", "true", None),
                       (t, None, "false", None, "digits"), (t, "false", "false", "true", "ref")]
        combos += [("char", None, None, None, "negint"), ("SF", None, None, None, "negint"), ("char", None, "true", None, "negint"),
                   ("char", None, None, None, "noref"), ("short", "true", None, None, "negint")]
        combos = list(dict.fromkeys(combos))
    for t, optional, delimited, trailing, length in combos:
        desc = dict(tag="array", type=t, named=True, optional=optional, delimited=delimited, trailing=trailing, length=length,
                    padded=None, text=None)

        def build(nm, d=desc):
            pre = []
            attrs = {"name": nm.name("a"), "type": d["type"]}
            if d["optional"] is not None:
                attrs["optional"] = d["optional"]
            if d["delimited"] is not None:
                attrs["delimited"] = d["delimited"]
            if d["trailing"] is not None:
                attrs["trailing-delimiter"] = d["trailing"]
            if d["length"] == "digits":
                attrs["length"] = nm.digits("L")
            elif d["length"] == "negint":
                attrs["length"] = nm.negint("L")
            elif d["length"] == "noref":
                attrs["length"] = nm.name("nowhere")
            elif d["length"] == "ref":
                n = nm.name("n")
                la = {"name": n, "type": "char"}
                if d["optional"] == "true":
                    la["optional"] = "true"
                pre.append(Elem("length", la))
                attrs["length"] = n
            return pre, [Elem("array", attrs)], []
        yield Shape(("array",) + tuple(desc[k] for k in ("type", "optional", "delimited", "trailing", "length")), desc, build)


def length_shapes():
    for t, optional, offset, referenced in itertools.product(["char", "short", "byte", "string", "E", "bool"], [None, "true", "false"],
                                                             [None, "0", "pos", "neg", "bad"], [True, False]):
        desc = dict(tag="length", type=t, named=True, optional=optional, offset=offset, referenced=referenced)

        def build(nm, d=desc):
            n = nm.name("n")
            attrs = {"name": n, "type": d["type"]}
            if d["optional"] is not None:
                attrs["optional"] = d["optional"]
            if d["offset"] == "0":
                attrs["offset"] = "0"
            elif d["offset"] == "pos":
                attrs["offset"] = nm.posint("off")
            elif d["offset"] == "neg":
                attrs["offset"] = nm.negint("off")
            elif d["offset"] == "bad":
                attrs["offset"] = nm.name("off")
            post = []
            if d["referenced"]:
                ra = {"name": nm.name("s"), "type": "string", "length": n}
                if d["optional"] == "true":
                    ra["optional"] = "true"
                post.append(Elem("field", ra))
            return [], [Elem("length", attrs)], post
        yield Shape(("length",) + tuple(desc[k] for k in ("type", "optional", "offset", "referenced")), desc, build)


def dummy_shapes():
    for t, text, after in itertools.product(["char", "short", "byte", "string", "bool", "E", "SF", "blob"], [None, "digits", "true", "text"], [False, True]):
        desc = dict(tag="dummy", type=t, text=text, after_field=after)

        def build(nm, d=desc):
            pre = [Elem("field", {"name": nm.name("p"), "type": "char"})] if d["after_field"] else []
            txt = None
            if d["text"] == "digits":
                txt = nm.digits("v")
            elif d["text"] == "true":
                txt = "true"
            elif d["text"] == "text":
                txt = nm.text("v", **{"isdigit": False, "isint": False, "== 'true'": False, "== 'false'": False})
            return pre, [Elem("dummy", {"type": d["type"]}, text=txt)], []
        yield Shape(("dummy", t, text, after), desc, build)


def break_shape():
    return Shape(("break",), dict(tag="break"), lambda nm: ([], [Elem("break")], []))


def chunked_shapes():
    """<chunked> sections around representative content (also nested)."""
    def build_simple(nm):
        return [], [Elem("chunked", {}, [Elem("field", {"name": nm.name("s"), "type": "string"}), Elem("break"),
                                         Elem("field", {"name": nm.name("c"), "type": "char"})])], []

    def build_nested(nm):
        return [], [Elem("chunked", {}, [Elem("field", {"name": nm.name("s"), "type": "string"}),
                                         Elem("chunked", {}, [Elem("break"), Elem("field", {"name": nm.name("t"), "type": "string"})]),
                                         Elem("break"), Elem("field", {"name": nm.name("c"), "type": "char"})])], []

    def build_between(nm):
        return [Elem("field", {"name": nm.name("a"), "type": "char"})], \
               [Elem("chunked", {}, [Elem("field", {"name": nm.name("s"), "type": "string"})])], \
               [Elem("field", {"name": nm.name("z"), "type": "string"})]

    def build_empty(nm):
        return [], [Elem("chunked", {}, [])], []
    yield Shape(("chunked", "simple"), dict(tag="chunked", variant="simple"), build_simple)
    yield Shape(("chunked", "nested"), dict(tag="chunked", variant="nested"), build_nested)
    yield Shape(("chunked", "between"), dict(tag="chunked", variant="between"), build_between)
    yield Shape(("chunked", "empty"), dict(tag="chunked", variant="empty"), build_empty)


def switch_shapes():
    """Switches: field kinds x case lists."""
    field_kinds = ["char", "E", "string", "array", "missing", "bool", "SF"]
    case_lists = [
        ("one-body",), ("one-empty",), ("body+empty",), ("body+default-body",), ("empty+default-empty",), ("body+default-empty",),
        ("default-first",), ("default-alone",), ("two-bodies",), ("bad-value",), ("ordinal-of-declared",), ("unknown-member",), ("ordinal-undeclared",),
    ]
    for fk, (cl,) in itertools.product(field_kinds, case_lists):
        desc = dict(tag="switch", field_kind=fk, cases=cl)

        def build(nm, d=desc):
            k = nm.name("k")
            fk = d["field_kind"]
            pre = []
            if fk == "array":
                pre.append(Elem("array", {"name": k, "type": "char", "length": nm.digits("L")}))
            elif fk != "missing":
                pre.append(Elem("field", {"name": k, "type": fk}))
            enum = fk == "E"

            def val(i):
                if d["cases"] == "bad-value" and i == 0:
                    return nm.name("cv") if not enum else nm.name("cv")
                if d["cases"] == "unknown-member" and i == 0:
                    return nm.name("member")
                if d["cases"] == "ordinal-of-declared" and i == 0:
                    return "1"
                if d["cases"] == "ordinal-undeclared" and i == 0:
                    return "7" if enum else nm.digits("cv")
                return ("A", "B")[i] if enum else nm.digits("cv")

            def body(tag):
                return [Elem("field", {"name": nm.name(tag), "type": "short"})]
            c = d["cases"]
            cases = []
            if c in ("one-body", "bad-value", "ordinal-of-declared", "unknown-member", "ordinal-undeclared"):
                cases = [Elem("case", {"value": val(0)}, body("x"))]
            elif c == "one-empty":
                cases = [Elem("case", {"value": val(0)}, [])]
            elif c == "body+empty":
                cases = [Elem("case", {"value": val(0)}, body("x")), Elem("case", {"value": val(1)}, [])]
            elif c == "two-bodies":
                cases = [Elem("case", {"value": val(0)}, body("x")), Elem("case", {"value": val(1)}, body("y"))]
            elif c == "body+default-body":
                cases = [Elem("case", {"value": val(0)}, body("x")), Elem("case", {"default": "true"}, body("y"))]
            elif c == "body+default-empty":
                cases = [Elem("case", {"value": val(0)}, body("x")), Elem("case", {"default": "true"}, [])]
            elif c == "empty+default-empty":
                cases = [Elem("case", {"value": val(0)}, []), Elem("case", {"default": "true"}, [])]
            elif c == "default-first":
                cases = [Elem("case", {"default": "true"}, body("y")), Elem("case", {"value": val(0)}, body("x"))]
            elif c == "default-alone":
                cases = [Elem("case", {"default": "true"}, body("y"))]
            return pre, [Elem("switch", {"field": k}, cases)], []
        yield Shape(("switch", fk, cl), desc, build)


def comment_shapes():
    """Comments: on a field, an array, a case, and next to a hardcoded string."""
    def on_field(nm):
        return [], [Elem("field", {"name": nm.name("f"), "type": "char"}, comment=nm.text("cmt"))], []

    def on_array_with_length(nm):
        return [], [Elem("array", {"name": nm.name("a"), "type": "char", "length": nm.digits("L")}, comment=nm.text("cmt"))], []

    def on_case(nm):
        k = nm.name("k")
        return [Elem("field", {"name": k, "type": "char"})], \
               [Elem("switch", {"field": k}, [Elem("case", {"value": nm.digits("cv")}, [Elem("field", {"name": nm.name("x"), "type": "char"})],
                                                   comment=nm.text("cmt"))])], []

    def on_hardcoded(nm):
        return [], [Elem("field", {"name": nm.name("f"), "type": "string"}, text=nm.text("v"), comment=nm.text("cmt"))], []
    yield Shape(("comment", "field"), dict(tag="comment"), on_field)
    yield Shape(("comment", "array"), dict(tag="comment"), on_array_with_length)
    yield Shape(("comment", "case"), dict(tag="comment"), on_case)
    yield Shape(("comment", "hardcoded"), dict(tag="comment"), on_hardcoded)


def pair_shapes():
    """Ordered pairs over a small alphabet of instruction groups: what one instruction leaves in the generation
    context (optional reached, dummy reached, names and length fields in scope, what was emitted) meets the next."""
    def atoms(nm):
        k = nm.name("k")
        shared = nm.name("dup")
        n = nm.name("n")
        return {
            "req": lambda: [Elem("field", {"name": nm.name("r"), "type": "char"})],
            "opt": lambda: [Elem("field", {"name": nm.name("o"), "type": "char", "optional": "true"})],
            "optstr": lambda: [Elem("field", {"name": nm.name("os"), "type": "string", "optional": "true"})],
            "optarr": lambda: [Elem("array", {"name": nm.name("oa"), "type": "char", "optional": "true"})],
            "lenarr": lambda: (lambda m: [Elem("length", {"name": m, "type": "char"}), Elem("array", {"name": nm.name("a"), "type": "SF", "length": m})])(nm.name("m")),
            "len": lambda: [Elem("length", {"name": n, "type": "char"})],
            "useslen": lambda: [Elem("field", {"name": nm.name("u"), "type": "string", "length": n})],
            "useslen_opt": lambda: [Elem("field", {"name": nm.name("uo"), "type": "string", "length": n, "optional": "true"})],
            "useslen_optarr": lambda: [Elem("array", {"name": nm.name("ua"), "type": "char", "length": n, "optional": "true"})],
            "named": lambda: [Elem("field", {"name": shared, "type": "char"})],
            "dummy": lambda: [Elem("dummy", {"type": "short"}, text=nm.digits("dv"))],
            "hard": lambda: [Elem("field", {"type": "char"}, text=nm.digits("hv"))],
            "break": lambda: [Elem("break")],
            "chunk": lambda: [Elem("chunked", {}, [Elem("field", {"name": nm.name("s"), "type": "string"}), Elem("break"), Elem("field", {"name": nm.name("c"), "type": "char"})])],
            "chunkopt": lambda: [Elem("chunked", {}, [Elem("field", {"name": nm.name("s"), "type": "string", "optional": "true"})])],
            "chunkdummy": lambda: [Elem("chunked", {}, [Elem("dummy", {"type": "char"}, text=nm.digits("dv"))])],
            "switchopt": lambda: (lambda kk: [Elem("field", {"name": kk, "type": "char"}), Elem("switch", {"field": kk}, [
                Elem("case", {"value": nm.digits("cv")}, [Elem("field", {"name": nm.name("q"), "type": "char", "optional": "true"})]),
                Elem("case", {"default": "true"}, [])])])(nm.name("k")),
            "switchoptfirst": lambda: (lambda kk: [Elem("field", {"name": kk, "type": "char"}), Elem("switch", {"field": kk}, [
                Elem("case", {"value": nm.digits("cv")}, [Elem("field", {"name": nm.name("q"), "type": "char", "optional": "true"})]),
                Elem("case", {"value": nm.digits("cw")}, [Elem("field", {"name": nm.name("w"), "type": "char"})])])])(nm.name("k")),
            "switchdummy": lambda: (lambda kk: [Elem("field", {"name": kk, "type": "E"}), Elem("switch", {"field": kk}, [
                Elem("case", {"value": "A"}, [Elem("dummy", {"type": "char"}, text=nm.digits("dv"))]),
                Elem("case", {"value": "B"}, [Elem("field", {"name": nm.name("z"), "type": "int"})])])])(nm.name("k")),
            "switchreq": lambda: (lambda kk: [Elem("field", {"name": kk, "type": "char"}), Elem("switch", {"field": kk}, [
                Elem("case", {"value": nm.digits("cv")}, [Elem("field", {"name": nm.name("q"), "type": "char"})])])])(nm.name("k")),
            # the switch field declared earlier, so that something can stand between it and the switch
            "kfield": lambda: [Elem("field", {"name": k, "type": "char"})],
            "switchk_req": lambda: [Elem("switch", {"field": k}, [Elem("case", {"value": nm.digits("cv")}, [Elem("field", {"name": nm.name("q"), "type": "char"})])])],
            "switchk_opt": lambda: [Elem("switch", {"field": k}, [Elem("case", {"value": nm.digits("cv")}, [Elem("field", {"name": nm.name("q"), "type": "char", "optional": "true"})])])],
            "switchk_dummy": lambda: [Elem("switch", {"field": k}, [Elem("case", {"value": nm.digits("cv")}, [Elem("dummy", {"type": "char"}, text=nm.digits("dv"))])])],
            "switchoptreq": lambda: (lambda kk: [Elem("field", {"name": kk, "type": "char", "optional": "true"}), Elem("switch", {"field": kk}, [
                Elem("case", {"value": nm.digits("cv")}, [Elem("field", {"name": nm.name("q"), "type": "char", "optional": "true"})])])])(nm.name("k")),
        }
    names = ["req", "opt", "optstr", "optarr", "lenarr", "len", "useslen", "named", "dummy", "hard", "break", "chunk", "chunkopt",
             "chunkdummy", "switchopt", "switchoptfirst", "switchdummy", "switchreq", "switchoptreq"]
    for a, b in itertools.product(names, repeat=2):
        def build(nm, a=a, b=b):
            at = atoms(nm)
            return at[a](), at[b](), []
        yield Shape(("pair", a, b), dict(tag="pair", first=a, second=b), build)
    for a, b, c in (("len", "useslen", "useslen"),
                    # a second reference to a length field whose first referrer is optional (or an array)
                    ("len", "useslen_opt", "useslen_opt"), ("len", "useslen_optarr", "useslen_opt"), ("len", "useslen_opt", "useslen_optarr"),
                    ("len", "useslen", "useslen_opt"), ("opt", "break", "req"), ("opt", "break", "opt"), ("dummy", "break", "req"), ("opt", "switchopt", "opt"),
                    ("switchopt", "opt", "opt"), ("chunkopt", "opt", "req"), ("switchoptfirst", "opt", "optstr"),
                    # what stands between a switch field and its switch reaches into the cases (and back out)
                    ("kfield", "opt", "switchk_req"), ("kfield", "opt", "switchk_opt"), ("kfield", "opt", "switchk_dummy"),
                    ("kfield", "dummy", "switchk_req"), ("kfield", "switchk_opt", "req"), ("kfield", "switchk_dummy", "req"),
                    ("kfield", "optstr", "switchk_opt")):
        def build3(nm, a=a, b=b, c=c):
            at = atoms(nm)
            return at[a](), at[b](), at[c]()
        yield Shape(("triple", a, b, c), dict(tag="triple"), build3)


def badtype_shapes():
    """Undeclared and malformed type names on every kind of instruction."""
    for t in BAD_TYPES:
        for kind in ("field", "array", "length", "dummy", "unnamed"):
            def build(nm, t=t, kind=kind):
                if kind == "field":
                    return [], [Elem("field", {"name": nm.name("f"), "type": t})], []
                if kind == "array":
                    return [], [Elem("array", {"name": nm.name("a"), "type": t, "length": nm.digits("L")})], []
                if kind == "length":
                    return [], [Elem("length", {"name": nm.name("n"), "type": t})], []
                if kind == "dummy":
                    return [], [Elem("dummy", {"type": t}, text=nm.digits("v"))], []
                return [], [Elem("field", {"type": t}, text=nm.digits("v"))], []
            yield Shape(("badtype", t, kind), dict(tag="badtype"), build)


def empty_object_shape():
    return Shape(("empty-object",), dict(tag="empty"), lambda nm: ([], [], []))
