"""Engine C-1 driver: run the generator's object/enum/packet emitters on abstract specs and
collect, per evaluation path, either the rejection or the skeleton of the emitted class."""
import ast
import re

from ..core import AnalysisError
from . import absint
from .absint import Interp, SSet, explore
from .values import (Elem, ExcObj, Inst, PyRaise, Sym, SymInt, Tmpl, Unsupported, World, as_tmpl, hole_name, is_strlike,
                     simplify)

OCG = "protocol_code_generator.generate.object_code_generator"
TF = "protocol_code_generator.type.type_factory"
CG = "protocol_code_generator.generate.code_generator"
CB = "protocol_code_generator.generate.code_block"


class Outcome:
    """Plain-data result of one evaluation path (picklable)."""

    def __init__(self, log, status, value, trace):
        self.path_str = ",".join("%s=%s" % (_k(k), "T" if v else "F") for k, v in log) or "-"
        self.status = status
        self.skeleton = None
        self.exc = None
        self.exc_site = None
        self.exc_class = None
        if status == "ok":
            self.skeleton = value
        else:
            self.exc = repr(value)
            self.exc_site = getattr(value, "site", None)
            self.exc_class = value.cls.name
        self.nondeterminism = list(trace.get("nondeterminism", []))
        self.symbolic_sorts = trace.get("symbolic_sorts", 0)

    @property
    def rejected(self):
        return self.status == "raise"

    @property
    def value(self):
        return self.skeleton

    def path(self):
        return self.path_str


def _k(k):
    if isinstance(k, tuple):
        return ":".join(str(x) for x in k[1:]) if k and k[0] in ("pred", "cmp") else ":".join(str(x) for x in k)
    return str(k)


class Session:
    """One interpreter instance; modules are re-loaded per evaluation path (class-level state is fresh)."""

    def __init__(self, index):
        self.index = index

    def fresh(self):
        # the generator keeps no module-level mutable state, so the loaded modules (classes, functions)
        # are shared between evaluation paths; every path builds its own TypeFactory / generator objects
        it = getattr(self, "_it", None)
        if it is None:
            it = Interp(self.index)
            it.ocg = it.load_module(OCG)
            it.tf = it.load_module(TF)
            self._it = it
        it.set_iterations = []
        it.depth = 0
        return it

    # ------------------------------------------------------------ object-level evaluation
    def run_object(self, make, class_name="T", max_paths=4000):
        """`make()` returns (declarations, instructions, source_path): custom type elements to define, the
        instruction elements of the object and the directory the declarations live in.  Returns Outcomes; an
        accepted path's value is a Skeleton."""
        def task():
            it = self.fresh()
            decls, instrs, source_path = make()
            tf = it.call(it.tf.env["TypeFactory"], [], {})
            for d in decls:
                ok = it.call(it.getattr(tf, "define_custom_type"), [d, source_path], {})
                if not ok:
                    raise AnalysisError("shape declares a type twice")
            # as in a real run, every declared type has been resolved by its bare name (its own class is
            # generated: enums first, then structs) before an object that uses it is generated
            for d in sorted(decls, key=lambda d: 0 if d.tag == "enum" else 1):
                it.call(it.getattr(tf, "get_type"), [d.attrs["name"]], {})
            gen = it.call(it.ocg.env["ObjectCodeGenerator"], [class_name, tf], {})
            for ins in instrs:
                it.call(it.getattr(gen, "generate_instruction"), [ins], {})
            code = it.getattr(gen, "code")
            return Skeleton(it, code, class_name)
        return [Outcome(*r) for r in explore(task, max_paths)]


# ---------------------------------------------------------------- skeletons
class Skeleton:
    """The class the generator would write: real Python with placeholder identifiers for holes.
    Plain data: text, imports, and what each placeholder stands for."""

    def __init__(self, it, code_block, class_name):
        if not isinstance(code_block, Inst):
            raise Unsupported("generator did not return a CodeBlock")
        lines = list(it.getattr(code_block, "_lines"))
        self.holes = {}
        imps = code_block.d.get("_imports")
        items = imps.items if isinstance(imps, SSet) else list(imps or [])
        self.imports = []
        for i in items:
            self.imports.append((self._render(i.d.get("_import_name")), self._render(i.d.get("_absolute_package_path"))))
        self.indent_after = code_block.d.get("_indentation")
        self.text = "\n".join(self._render(l) for l in lines)
        self.class_name = class_name
        self.unordered_iterations = len(it.set_iterations)
        self._tree = None

    def _render(self, line):
        line = simplify(line) if is_strlike(line) else line
        if isinstance(line, str):
            return line
        if line is None:
            return None
        out = []
        for p in as_tmpl(line).parts:
            out.append(p if isinstance(p, str) else self._placeholder(p))
        return "".join(out)

    def _placeholder(self, p):
        if isinstance(p, Sym):
            # tags are unique within a shape (Namer counters), so the identifier is a function of the tag only:
            # the reference side recomputes the same identifiers from a fresh instance of the shape
            ident = "h_" + re.sub(r"\W+", "_", p.tag).strip("_")
            info = {"kind": "sym", "tag": p.tag, "preds": dict(p.preds), "wild": p.wild, "prov": _prov(p)}
        else:
            ident = "h_int_" + re.sub(r"\W+", "_", p.expr).strip("_")
            info = {"kind": "int", "expr": p.expr}
        self.holes[ident] = info
        return ident

    def __getstate__(self):
        d = dict(self.__dict__)
        d["_tree"] = None
        return d

    def tree(self):
        if self._tree is None:
            self._tree = ast.parse(self.text)
        return self._tree


def _prov(p):
    pr = getattr(p, "prov", None)
    if isinstance(pr, tuple) and pr and pr[0] == "derived":
        src = pr[2]
        inner = src.tag if isinstance(src, Sym) else (src.text() if isinstance(src, Tmpl) else str(src))
        return "%s(%s)" % (pr[1], inner)
    return str(pr)
