"""Engine C-1 driver: run the generator's object/enum/packet emitters on abstract specs and
collect, per evaluation path, either the rejection or the skeleton of the emitted class."""
import ast
import re

from ..core import AnalysisError
from . import absint
from .absint import Interp, SSet, explore
from .values import (Elem, ExcObj, Inst, PyRaise, Sym, SymInt, Tmpl, Unsupported, World, as_tmpl, hole_name, is_strlike,
                     simplify)

OCG = "protocol_code_generator.generate.object_code_generator"
TF = "protocol_code_generator.type.type_factory"
CG = "protocol_code_generator.generate.code_generator"
CB = "protocol_code_generator.generate.code_block"


class Outcome:
    """Plain-data result of one evaluation path (picklable)."""

    def __init__(self, log, status, value, trace):
        self.path_str = ",".join("%s=%s" % (_k(k), "T" if v else "F") for k, v in log) or "-"
        self.status = status
        self.skeleton = None
        self.exc = None
        self.exc_site = None
        self.exc_class = None
        if status == "ok":
            self.skeleton = value
        else:
            self.exc = repr(value)
            self.exc_site = getattr(value, "site", None)
            self.exc_class = value.cls.name
        self.nondeterminism = list(trace.get("nondeterminism", []))
        self.symbolic_sorts = trace.get("symbolic_sorts", 0)

    @property
    def rejected(self):
        return self.status == "raise"

    @property
    def value(self):
        return self.skeleton

    def path(self):
        return self.path_str


def _k(k):
    if isinstance(k, tuple):
        return ":".join(str(x) for x in k[1:]) if k and k[0] in ("pred", "cmp") else ":".join(str(x) for x in k)
    return str(k)


class Session:
    """One interpreter instance; modules are re-loaded per evaluation path (class-level state is fresh)."""

    def __init__(self, index):
        self.index = index

    def fresh(self):
        # the generator keeps no module-level mutable state, so the loaded modules (classes, functions)
        # are shared between evaluation paths; every path builds its own TypeFactory / generator objects
        it = getattr(self, "_it", None)
        if it is None:
            it = Interp(self.index)
            it.ocg = it.load_module(OCG)
            it.tf = it.load_module(TF)
            self._it = it
        it.set_iterations = []
        it.depth = 0
        return it

    # ------------------------------------------------------------ object-level evaluation
    def run_object(self, make, class_name="T", max_paths=4000):
        """`make()` returns (declarations, instructions, source_path): custom type elements to define, the
        instruction elements of the object and the directory the declarations live in.  Returns Outcomes; an
        accepted path's value is a Skeleton."""
        def task():
            it = self.fresh()
            decls, instrs, source_path = make()
            tf = it.call(it.tf.env["TypeFactory"], [], {})
            for d in decls:
                ok = it.call(it.getattr(tf, "define_custom_type"), [d, source_path], {})
                if not ok:
                    raise AnalysisError("shape declares a type twice")
            # as in a real run, every declared type has been resolved by its bare name (its own class is
            # generated: enums first, then structs) before an object that uses it is generated
            for d in sorted(decls, key=lambda d: 0 if d.tag == "enum" else 1):
                it.call(it.getattr(tf, "get_type"), [d.attrs["name"]], {})
            gen = it.call(it.ocg.env["ObjectCodeGenerator"], [class_name, tf], {})
            for ins in instrs:
                it.call(it.getattr(gen, "generate_instruction"), [ins], {})
            code = it.getattr(gen, "code")
            return Skeleton(it, code, class_name)
        return [Outcome(*r) for r in explore(task, max_paths)]


# ---------------------------------------------------------------- skeletons
class Skeleton:
    """The class the generator would write: real Python with placeholder identifiers for holes.
    Plain data: text, imports, and what each placeholder stands for."""

    def __init__(self, it, code_block, class_name):
        if not isinstance(code_block, Inst):
            raise Unsupported("generator did not return a CodeBlock")
        lines = list(it.getattr(code_block, "_lines"))
        self.holes = {}
        imps = code_block.d.get("_imports")
        items = imps.items if isinstance(imps, SSet) else list(imps or [])
        self.imports = []
        for i in items:
            self.imports.append((self._render(i.d.get("_import_name")), self._render(i.d.get("_absolute_package_path"))))
        self.indent_after = code_block.d.get("_indentation")
        self.text = "\n".join(self._render(l) for l in lines)
        self.class_name = class_name
        self.unordered_iterations = len(it.set_iterations)
        self._tree = None

    def _render(self, line):
        line = simplify(line) if is_strlike(line) else line
        if isinstance(line, str):
            return line
        if line is None:
            return None
        out = []
        for p in as_tmpl(line).parts:
            out.append(p if isinstance(p, str) else self._placeholder(p))
        return "".join(out)

    def _placeholder(self, p):
        if isinstance(p, Sym):
            # tags are unique within a shape (Namer counters), so the identifier is a function of the tag only:
            # the reference side recomputes the same identifiers from a fresh instance of the shape
            ident = "h_" + re.sub(r"\W+", "_", p.tag).strip("_")
            info = {"kind": "sym", "tag": p.tag, "preds": dict(p.preds), "wild": p.wild, "prov": _prov(p),
                    "escapes": [list(e) for e in getattr(p, "escapes", ())]}
        else:
            ident = "h_int_" + re.sub(r"\W+", "_", p.expr).strip("_")
            info = {"kind": "int", "expr": p.expr}
        self.holes[ident] = info
        return ident

    def __getstate__(self):
        d = dict(self.__dict__)
        d["_tree"] = None
        return d

    def tree(self):
        if self._tree is None:
            self._tree = ast.parse(self.text)
        return self._tree


def _prov(p):
    pr = getattr(p, "prov", None)
    if isinstance(pr, tuple) and pr and pr[0] == "derived":
        src = pr[2]
        inner = src.tag if isinstance(src, Sym) else (src.text() if isinstance(src, Tmpl) else str(src))
        return "%s(%s)" % (pr[1], inner)
    return str(pr)


# ---------------------------------------------------------------- whole-program evaluation
class AbstractFS:
    """An input tree of protocol.xml files: {relative dir: <protocol> element}, enumerated in a given order."""

    def __init__(self, root, files, order=None):
        self.root = root
        self.files = files
        self.order = list(order) if order is not None else list(files)

    def walk(self, root):
        out = []
        for d in self.order:
            path = self.root if d == "" else self.root + "/" + d
            subdirs = sorted({x[len(d):].lstrip("/").split("/")[0] for x in self.files if x != d and (d == "" or x.startswith(d + "/"))})
            out.append((path, subdirs, ["protocol.xml"] if d in self.files else []))
        return out

    def listdir(self, p):
        raise Unsupported("listdir on the abstract tree")

    def parse(self, path):
        p = path.s if hasattr(path, "s") else path
        if not isinstance(p, str):
            raise Unsupported("parse of a symbolic path")
        rel = p[len(self.root):].strip("/")
        d = rel[:-len("protocol.xml")].strip("/")
        if d not in self.files:
            raise PyRaise(ExcObj(ExcClassLookup.get("FileNotFoundError"), [p]))
        return self.files[d]


class ExcClassLookup:
    table = {}

    @classmethod
    def get(cls, name):
        return cls.table[name]


class ProgramResult:
    """Plain data: files written (path -> text with placeholders), in order; sink parameters."""

    def __init__(self, trace, holes):
        self.files = []
        for f in trace.get("files", []):
            self.files.append({"path": f.path_text, "mode": f.mode, "kw": {k: (v if isinstance(v, (str, bool, int, type(None))) else repr(v)) for k, v in f.kw.items()},
                               "content": f.content_text})
        self.makedirs = [(p, e) for p, e in trace.get("makedirs_text", [])]
        self.nondeterminism = list(trace.get("nondeterminism", []))
        self.consulted_output = list(trace.get("consulted_output", []))
        self.encodings = [e if isinstance(e, str) else repr(e) for e in trace.get("encodings", [])]
        self.order_dependent_calls = list(trace.get("fs_order_dependent", []))
        self.holes = holes


def run_program(session, tree_factory, order=None, runs=1, max_paths=64, set_order="insertion", fresh_output=False, keep_going=False):
    """Abstractly run ProtocolCodeGenerator(input).generate(output) `runs` times on one instance over the tree
    returned by tree_factory() ({dir: protocol Elem}) -- or, given a list of factories, over one tree per run (the
    specification edited between the runs); returns Outcomes whose value is a list of ProgramResult."""
    from .natives import PathObj
    from .absint import explore

    def task():
        it = session.fresh()
        for n in ("FileNotFoundError",):
            ExcClassLookup.table[n] = it.builtins[n]
        cg = it.load_module(CG)
        factories = list(tree_factory) if isinstance(tree_factory, (list, tuple)) else [tree_factory] * runs
        results = []
        gen = it.call(cg.env["ProtocolCodeGenerator"], [PathObj("/in")], {})
        fs = last = None
        for r in range(runs):
            if factories[r] is not last:
                # the XML under the input root as this run finds it (edited between runs when the factories differ)
                fs, last = AbstractFS("/in", factories[r](), order), factories[r]
            World.trace["fs"] = fs
            World.trace["files"] = []
            World.trace["makedirs"] = []
            World.trace["consulted_output"] = []
            World.trace["encodings"] = []
            World.trace["set_order"] = set_order
            World.trace["fresh_output"] = fresh_output
            try:
                it.call(it.getattr(gen, "generate"), [PathObj("/out")], {})
            except PyRaise as pr:
                if not keep_going:
                    raise
                # the caller catches the error and uses the same generator again
                results.append(("raised", pr.exc))
                continue
            sk = _Renderer()
            for f in World.trace["files"]:
                f.path_text = sk.render(f.path)
                f.content_text = sk.render(f.content())
            World.trace["makedirs_text"] = [(sk.render(p), e) for p, e in World.trace["makedirs"]]
            results.append(ProgramResult(World.trace, sk.holes))
        return results
    return [Outcome(*r) for r in explore(task, max_paths, truncate=True)]


class _Renderer:
    def __init__(self):
        self.holes = {}

    def render(self, v):
        v = v.s if hasattr(v, "s") and not isinstance(v, str) else v
        v = simplify(v) if is_strlike(v) else v
        if isinstance(v, str):
            return v
        out = []
        for p in as_tmpl(v).parts:
            if isinstance(p, str):
                out.append(p)
            else:
                tag = p.tag if isinstance(p, Sym) else "int_" + p.expr
                ident = "h_" + re.sub(r"\W+", "_", tag).strip("_")
                self.holes[ident] = {"kind": "sym" if isinstance(p, Sym) else "int", "tag": tag,
                                     "preds": dict(getattr(p, "preds", {})), "wild": getattr(p, "wild", False), "prov": _prov(p) if isinstance(p, Sym) else "",
                                     "escapes": [list(e) for e in getattr(p, "escapes", ())]}
                out.append(ident)
        return "".join(out)
