"""Engine C-1: abstract evaluator for the Python subset the code generator is written in.

The generator is interpreted from its syntax trees (never imported) over symbolic spec text.
Every place where its control flow inspects a symbol forks the evaluation (replay).
"""
import ast
import copy as _copy

from .values import (Bound, Chooser, Elem, ExcClass, ExcObj, Func, Inst, Module, Native, Prop, PyRaise, Sym, SymInt, Tmpl,
                     UClass, Unsupported, World, as_tmpl, choose, concat, is_strlike, simplify, skey, str_eq)


class _Return(Exception):
    def __init__(self, v):
        self.v = v


class _Break(Exception):
    pass


class _Continue(Exception):
    pass


class ChainEnv(dict):
    def __init__(self, parent=None):
        dict.__init__(self)
        self.parent = parent

    def lookup(self, k):
        e = self
        while e is not None:
            if dict.__contains__(e, k):
                return True, dict.__getitem__(e, k)
            e = getattr(e, "parent", None)
        return False, None


class SDict(dict):
    """dict whose keys may be symbolic strings (keyed by skey, original keys kept)."""

    def __init__(self):
        dict.__init__(self)
        self.orig = {}

    def set(self, k, v):
        kk = skey(k)
        dict.__setitem__(self, kk, v)
        self.orig[kk] = k

    def has(self, k):
        return dict.__contains__(self, skey(k))

    def get_(self, k, default=None):
        return dict.get(self, skey(k), default)

    def keys_(self):
        return [self.orig[k] for k in dict.keys(self)]

    def remove(self, k):
        kk = skey(k)
        dict.__delitem__(self, kk)
        del self.orig[kk]

    def copy_(self):
        n = SDict()
        for k in dict.keys(self):
            dict.__setitem__(n, k, dict.__getitem__(self, k))
            n.orig[k] = self.orig[k]
        return n


class SSet:
    """set with symbolic members; remembers insertion order but exposes it only through sorted()."""

    def __init__(self, items=()):
        self.items = []
        self.keys = set()
        for x in items:
            self.add(x)

    def add(self, x):
        k = skey(x)
        if k not in self.keys:
            self.keys.add(k)
            self.items.append(x)

    def __contains__(self, x):
        return skey(x) in self.keys


class Interp:
    def __init__(self, index, natives=None):
        self.index = index
        self.modules = {}
        self.native_modules = dict(natives or {})
        self.depth = 0
        self.set_iterations = []  # (node, module) of unordered iterations observed
        from . import natives as N
        self.N = N
        self.builtins = N.make_builtins(self)

    # ------------------------------------------------------------ modules
    def load_module(self, name):
        if name in self.modules:
            return self.modules[name]
        mi = self.index.module(name)
        m = Module(name)
        self.modules[name] = m
        env = m.env
        fr = Frame(self, m, env)
        for st in mi.tree.body:
            fr.stmt(st)
        return m

    def import_name(self, modname, name):
        if modname in self.N.STDLIB:
            tbl = self.N.STDLIB[modname](self)
            if (modname + "." + name) in self.N.STDLIB:
                return self.import_module(modname + "." + name)
            if name not in tbl:
                raise Unsupported("unmodelled stdlib name %s.%s" % (modname, name))
            return tbl[name]
        if self.index.has_module(modname):
            m = self.load_module(modname)
            if name in m.env:
                return m.env[name]
            if self.index.has_module(modname + "." + name):
                return self.load_module(modname + "." + name)
            raise Unsupported("cannot import %s from %s" % (name, modname))
        raise Unsupported("unmodelled module %s" % modname)

    def import_module(self, modname):
        if modname in self.N.STDLIB:
            m = Module(modname)
            m.env.update(self.N.STDLIB[modname](self))
            m.native = True
            return m
        if self.index.has_module(modname):
            return self.load_module(modname)
        raise Unsupported("unmodelled module %s" % modname)

    # ------------------------------------------------------------ calls
    def call(self, f, args, kwargs=None, node=None):
        kwargs = dict(kwargs or {})
        if isinstance(f, Bound):
            return self.call(f.func, [f.self_] + list(args), kwargs, node)
        if isinstance(f, Native):
            return f.fn(*args, **kwargs)
        if isinstance(f, ExcClass):
            return ExcObj(f, list(args))
        if isinstance(f, UClass):
            o = Inst(f)
            init = f.lookup("__init__")
            if isinstance(init, Func):
                self.call(init, [o] + list(args), kwargs, node)
            return o
        if isinstance(f, Func):
            ov = self.N.OVERRIDES.get((f.module.name, getattr(f.node, "name", None)))
            if ov is not None and any(isinstance(simplify(a) if is_strlike(a) else a, (Sym, Tmpl)) for a in args):
                return ov(self, *args)
            self.depth += 1
            if self.depth > 60:
                raise Unsupported("recursion too deep in %r" % f)
            try:
                env = ChainEnv(f.env)
                self.bind(f, args, kwargs, env)
                fr = Frame(self, f.module, env, f)
                if isinstance(f.node, ast.Lambda):
                    return fr.expr(f.node.body)
                try:
                    fr.block(f.node.body)
                except _Return as r:
                    return r.v
                return None
            finally:
                self.depth -= 1
        raise Unsupported("cannot call %r" % (f,))

    def bind(self, f, args, kwargs, env):
        a = f.node.args
        params = [x.arg for x in a.posonlyargs + a.args]
        nd = len(a.defaults)
        fr = Frame(self, f.module, f.env, f)
        if len(args) > len(params):
            if a.vararg:
                env[a.vararg.arg] = tuple(args[len(params):])
            else:
                raise PyRaise(ExcObj(self.builtins["TypeError"], ["too many positional arguments for %s" % getattr(f.node, "name", "lambda")]))
        elif a.vararg:
            env[a.vararg.arg] = ()
        for i, p in enumerate(params):
            if i < len(args):
                env[p] = args[i]
            elif p in kwargs:
                env[p] = kwargs.pop(p)
            else:
                di = i - (len(params) - nd)
                if di < 0:
                    raise PyRaise(ExcObj(self.builtins["TypeError"], ["missing argument %s" % p]))
                env[p] = fr.expr(a.defaults[di])
        for i, p in enumerate(a.kwonlyargs):
            if p.arg in kwargs:
                env[p.arg] = kwargs.pop(p.arg)
            elif a.kw_defaults[i] is not None:
                env[p.arg] = fr.expr(a.kw_defaults[i])
            else:
                raise PyRaise(ExcObj(self.builtins["TypeError"], ["missing keyword argument %s" % p.arg]))
        if kwargs:
            if a.kwarg:
                env[a.kwarg.arg] = dict(kwargs)
            else:
                raise PyRaise(ExcObj(self.builtins["TypeError"], ["unexpected keyword argument(s) %s" % sorted(kwargs)]))
        elif a.kwarg:
            env[a.kwarg.arg] = {}

    # ------------------------------------------------------------ attribute protocol
    def getattr(self, o, a, node=None):
        if isinstance(o, Inst):
            if a in o.d:
                return o.d[a]
            v = o.cls.lookup(a)
            if v is None:
                if a == "__class__":
                    return o.cls
                raise PyRaise(ExcObj(self.builtins["AttributeError"], ["%s has no attribute %s" % (o.cls.name, a)]), node)
            if isinstance(v, Prop):
                return self.call(v.fget, [o], {}, node)
            if isinstance(v, Func):
                if v.kind == "static":
                    return v
                if v.kind == "class":
                    return Bound(v, o.cls)
                return Bound(v, o)
            return v
        if isinstance(o, UClass):
            v = o.lookup(a)
            if v is None:
                if a == "__name__":
                    return o.name
                raise PyRaise(ExcObj(self.builtins["AttributeError"], ["class %s has no attribute %s" % (o.name, a)]), node)
            if isinstance(v, Func) and v.kind == "class":
                return Bound(v, o)
            return v
        if isinstance(o, Module):
            if a in o.env:
                return o.env[a]
            sub = o.name + "." + a
            if sub in self.N.STDLIB or self.index.has_module(sub):
                return self.import_module(sub)
            raise Unsupported("module attribute %s.%s" % (o.name, a))
        return self.N.native_getattr(self, o, a, node)

    def setattr(self, o, a, v, node=None):
        if isinstance(o, Inst):
            p = o.cls.lookup(a)
            if isinstance(p, Prop):
                if p.fset is None:
                    raise PyRaise(ExcObj(self.builtins["AttributeError"], ["can't set attribute %s" % a]), node)
                self.call(p.fset, [o, v], {}, node)
                return
            o.d[a] = v
            return
        if isinstance(o, UClass):
            o.ns[a] = v
            return
        if isinstance(o, Module):
            o.env[a] = v
            return
        if hasattr(o, "abs_setattr"):
            o.abs_setattr(a, v)
            return
        raise Unsupported("attribute store on %r" % (o,))

    def truth(self, v):
        if isinstance(v, bool):
            return v
        if v is None:
            return False
        if isinstance(v, (int, str, list, tuple, dict, set)):
            return bool(v)
        if isinstance(v, Sym):
            return True  # symbols are non-empty by construction
        if isinstance(v, Tmpl):
            return bool(v.parts)
        if isinstance(v, SymInt):
            return not self.int_cmp(ast.Eq(), v, 0)
        if isinstance(v, SSet):
            return bool(v.items)
        if isinstance(v, Inst):
            b = v.cls.lookup("__bool__")
            if isinstance(b, Func):
                return self.truth(self.call(b, [v], {}))
            ln = v.cls.lookup("__len__")
            if isinstance(ln, Func):
                return self.truth(self.call(ln, [v], {}))
            return True
        if hasattr(v, "abs_truth"):
            return v.abs_truth()
        if isinstance(v, (UClass, Func, Bound, Native, Elem, ExcObj, ExcClass, Module, Prop)):
            return True
        raise Unsupported("truth value of %r" % (v,))

    def int_cmp(self, op, a, b):
        """Comparison involving a symbolic int: decided by forking, memoised on the expression pair."""
        d = _decide_by_bounds(op, a, b)
        if d is not None:
            return d
        key = ("cmp", type(op).__name__, repr(a), repr(b))
        memo = World.trace.setdefault("cmp_memo", {})
        if key not in memo:
            # consistency with earlier related decisions is the caller's business; keep it simple and sound: fork
            memo[key] = choose(key)
        return memo[key]

    def iterate(self, v, node=None):
        if isinstance(v, (list, tuple)):
            return list(v)
        if isinstance(v, SDict):
            return v.keys_()
        if isinstance(v, dict):
            return list(v.keys())
        if isinstance(v, SSet):
            self.set_iterations.append(node)
            items = list(v.items)
            # a set has no order: which one an iteration observes is a parameter of the evaluation
            mode = (World.trace or {}).get("set_order", "insertion") if World.trace is not None else "insertion"
            if mode == "reversed":
                items.reverse()
            elif mode == "rotated" and len(items) > 1:
                items = items[1:] + items[:1]
            return items
        if isinstance(v, Elem):
            return list(v.children)
        if isinstance(v, range):
            return list(v)
        if isinstance(v, str):
            return list(v)
        if hasattr(v, "abs_iter"):
            return v.abs_iter()
        raise Unsupported("cannot iterate %r" % (v,))


class Frame:
    def __init__(self, it, module, env, func=None):
        self.it, self.module, self.env, self.func = it, module, env, func

    # ------------------------------------------------------------ statements
    def block(self, body):
        for st in body:
            self.stmt(st)

    def stmt(self, st):
        m = _S_DISPATCH.get(type(st))
        if m is None:
            raise Unsupported("statement %s at %s:%d" % (type(st).__name__, self.module.name, st.lineno))
        m(self, st)

    def s_Expr(self, st):
        self.expr(st.value)

    def s_Pass(self, st):
        pass

    def s_Global(self, st):
        raise Unsupported("global statement")

    def s_Import(self, st):
        for a in st.names:
            m = self.it.import_module(a.name)
            if a.asname:
                self.env[a.asname] = m
            else:
                top = a.name.split(".")[0]
                self.env[top] = self.it.import_module(top) if top != a.name else m

    def s_ImportFrom(self, st):
        from ..index import resolve_relative
        mi = self.it.index.modules.get(self.module.name)
        is_pkg = bool(mi and mi.is_pkg)
        mod = resolve_relative(self.module.name, is_pkg, st.level, st.module)
        for a in st.names:
            if a.name == "*":
                raise Unsupported("star import in the generator")
            self.env[a.asname or a.name] = self.it.import_name(mod, a.name)

    def s_FunctionDef(self, st):
        f = Func(st, self.env, self.module)
        val = f
        for d in reversed(st.decorator_list):
            dn = ast.unparse(d)
            if dn in ("property", "abstractproperty", "abc.abstractproperty"):
                val = Prop(f)
            elif dn == "staticmethod":
                f.kind = "static"
            elif dn == "classmethod":
                f.kind = "class"
            elif dn in ("abstractmethod", "abc.abstractmethod"):
                pass
            elif dn.endswith(".setter"):
                ok, old = self.env.lookup(dn[:-7]) if isinstance(self.env, ChainEnv) else (dn[:-7] in self.env, self.env.get(dn[:-7]))
                if not (ok and isinstance(old, Prop)):
                    raise Unsupported("setter for unknown property %s" % dn)
                val = Prop(old.fget, f)
            else:
                raise Unsupported("decorator %s" % dn)
        self.env[st.name] = val

    def s_ClassDef(self, st):
        bases = [self.expr(b) for b in st.bases]
        cenv = ChainEnv(self.env)
        Frame(self.it, self.module, cenv, None).block(st.body)
        ns = {k: dict.__getitem__(cenv, k) for k in dict.keys(cenv)}
        c = UClass(st.name, [b for b in bases if isinstance(b, UClass)], ns, self.module)
        if any(isinstance(b, ExcClass) for b in bases):
            base = next(b for b in bases if isinstance(b, ExcClass))
            c = ExcClass(st.name, base)
        else:
            for v in ns.values():
                for f in ((v.fget, v.fset) if isinstance(v, Prop) else (v,)):
                    if isinstance(f, Func):
                        f.cls = c
                        f.env = self.env  # methods do not see the class namespace
        self.env[st.name] = c

    def s_Assign(self, st):
        v = self.expr(st.value)
        for t in st.targets:
            self.assign(t, v)

    def s_AnnAssign(self, st):
        if st.value is not None:
            self.assign(st.target, self.expr(st.value))

    def s_AugAssign(self, st):
        cur = self.expr(_as_load(st.target))
        self.assign(st.target, self.binop(st.op, cur, self.expr(st.value), st))

    def s_Delete(self, st):
        for t in st.targets:
            if isinstance(t, ast.Subscript):
                o = self.expr(t.value)
                k = self.expr(t.slice)
                if isinstance(o, SDict):
                    o.remove(k)
                elif isinstance(o, (dict, list)):
                    del o[k]
                else:
                    raise Unsupported("del on %r" % (o,))
            elif isinstance(t, ast.Name):
                self.env.pop(t.id, None)
            else:
                raise Unsupported("del target")

    def assign(self, t, v):
        if isinstance(t, ast.Name):
            self.env[t.id] = v
        elif isinstance(t, ast.Attribute):
            self.it.setattr(self.expr(t.value), t.attr, v, t)
        elif isinstance(t, ast.Subscript):
            o = self.expr(t.value)
            if isinstance(t.slice, ast.Slice):
                raise Unsupported("slice assignment")
            k = self.expr(t.slice)
            if isinstance(o, SDict):
                o.set(k, v)
            elif isinstance(o, dict):
                o[skey(k) if is_strlike(k) else k] = v
            elif isinstance(o, list):
                o[k] = v
            elif hasattr(o, "abs_setitem"):
                o.abs_setitem(k, v)
            else:
                raise Unsupported("item store on %r" % (o,))
        elif isinstance(t, (ast.Tuple, ast.List)):
            vs = self.it.iterate(v)
            stars = [i for i, x in enumerate(t.elts) if isinstance(x, ast.Starred)]
            if len(stars) == 1:
                k = stars[0]
                after = len(t.elts) - k - 1
                if len(vs) < len(t.elts) - 1:
                    raise PyRaise(ExcObj(self.it.builtins["ValueError"], ["unpack arity"]), t)
                for tt, vv in zip(t.elts[:k], vs[:k]):
                    self.assign(tt, vv)
                self.assign(t.elts[k].value, list(vs[k:len(vs) - after]))
                for tt, vv in zip(t.elts[k + 1:], vs[len(vs) - after:] if after else []):
                    self.assign(tt, vv)
                return
            if len(vs) != len(t.elts):
                raise PyRaise(ExcObj(self.it.builtins["ValueError"], ["unpack arity"]), t)
            for tt, vv in zip(t.elts, vs):
                self.assign(tt, vv)
        else:
            raise Unsupported("assignment target %s" % type(t).__name__)

    def s_If(self, st):
        if self.it.truth(self.expr(st.test)):
            self.block(st.body)
        else:
            self.block(st.orelse)

    def s_For(self, st):
        broke = False
        for v in self.it.iterate(self.expr(st.iter), st):
            self.assign(st.target, v)
            try:
                self.block(st.body)
            except _Break:
                broke = True
                break
            except _Continue:
                continue
        if not broke:
            self.block(st.orelse)

    def s_While(self, st):
        n = 0
        while self.it.truth(self.expr(st.test)):
            n += 1
            if n > 10000:
                raise Unsupported("unbounded while loop at %s:%d" % (self.module.name, st.lineno))
            try:
                self.block(st.body)
            except _Break:
                return
            except _Continue:
                continue
        self.block(st.orelse)

    def s_Return(self, st):
        raise _Return(self.expr(st.value) if st.value is not None else None)

    def s_Break(self, st):
        raise _Break()

    def s_Continue(self, st):
        raise _Continue()

    def s_Raise(self, st):
        if st.exc is None:
            cur = World.trace.get("handling")
            if cur is None:
                raise Unsupported("bare raise outside a handler")
            raise PyRaise(cur, st)
        e = self.expr(st.exc)
        if isinstance(e, ExcClass):
            e = ExcObj(e, [])
        if not isinstance(e, ExcObj):
            raise Unsupported("raise of %r" % (e,))
        e.site = "%s:%d" % (self.module.name, st.lineno)
        raise PyRaise(e, st)

    def s_Assert(self, st):
        if not self.it.truth(self.expr(st.test)):
            raise PyRaise(ExcObj(self.it.builtins["AssertionError"], []), st)

    def s_Try(self, st):
        try:
            try:
                self.block(st.body)
            except PyRaise as pr:
                for h in st.handlers:
                    hc = self.expr(h.type) if h.type is not None else None
                    if hc is None or _exc_match(pr.exc.cls, hc):
                        if h.name:
                            self.env[h.name] = pr.exc
                        prev = World.trace.get("handling")
                        World.trace["handling"] = pr.exc
                        try:
                            self.block(h.body)
                        finally:
                            World.trace["handling"] = prev
                        break
                else:
                    raise
            else:
                self.block(st.orelse)
        finally:
            self.block(st.finalbody)

    def s_With(self, st):
        entered = []
        for item in st.items:
            cm = self.expr(item.context_expr)
            if hasattr(cm, "abs_enter"):
                v = cm.abs_enter()
            else:
                raise Unsupported("with over %r" % (cm,))
            entered.append(cm)
            if item.optional_vars is not None:
                self.assign(item.optional_vars, v)
        try:
            self.block(st.body)
        finally:
            for cm in reversed(entered):
                cm.abs_exit()

    # ------------------------------------------------------------ expressions
    def expr(self, e):
        m = _E_DISPATCH.get(type(e))
        if m is None:
            raise Unsupported("expression %s at %s:%d" % (type(e).__name__, self.module.name, getattr(e, "lineno", 0)))
        return m(self, e)

    def e_Constant(self, e):
        return e.value

    def e_Name(self, e):
        if isinstance(self.env, ChainEnv):
            ok, v = self.env.lookup(e.id)
        else:
            ok, v = (e.id in self.env), self.env.get(e.id)
        if ok:
            return v
        if e.id in self.module.env:
            return self.module.env[e.id]
        if e.id in self.it.builtins:
            return self.it.builtins[e.id]
        raise PyRaise(ExcObj(self.it.builtins["NameError"], ["name %s is not defined" % e.id]), e)

    def e_JoinedStr(self, e):
        parts = []
        for v in e.values:
            if isinstance(v, ast.Constant):
                parts.append(v.value)
            else:
                x = self.expr(v.value)
                if v.conversion == 114:  # !r
                    parts.append(self.it.N.to_repr(self.it, x))
                else:
                    parts.append(self.it.N.to_str(self.it, x))
        if all(isinstance(p, str) for p in parts):
            return "".join(parts)
        return simplify(Tmpl(parts))

    def e_Attribute(self, e):
        return self.it.getattr(self.expr(e.value), e.attr, e)

    def e_Call(self, e):
        if isinstance(e.func, ast.Name) and e.func.id == "super" and not e.args:
            return SuperProxy(self.func.cls if self.func else None, self.env.lookup("self")[1] if isinstance(self.env, ChainEnv) else None)
        f = self.expr(e.func)
        if isinstance(f, SuperProxy):
            raise Unsupported("super object called")
        args = []
        for a in e.args:
            if isinstance(a, ast.Starred):
                args.extend(self.it.iterate(self.expr(a.value)))
            else:
                args.append(self.expr(a))
        kwargs = {}
        for k in e.keywords:
            if k.arg is None:
                d = self.expr(k.value)
                kwargs.update(d)
            else:
                kwargs[k.arg] = self.expr(k.value)
        return self.it.call(f, args, kwargs, e)

    def e_Lambda(self, e):
        return Func(e, self.env, self.module, self.func.cls if self.func else None)

    def e_IfExp(self, e):
        return self.expr(e.body) if self.it.truth(self.expr(e.test)) else self.expr(e.orelse)

    def e_BoolOp(self, e):
        if isinstance(e.op, ast.And):
            v = True
            for x in e.values:
                v = self.expr(x)
                if not self.it.truth(v):
                    return v
            return v
        v = False
        for x in e.values:
            v = self.expr(x)
            if self.it.truth(v):
                return v
        return v

    def e_UnaryOp(self, e):
        v = self.expr(e.operand)
        if isinstance(e.op, ast.Not):
            return not self.it.truth(v)
        if isinstance(e.op, ast.USub):
            if isinstance(v, int):
                return -v
            if isinstance(v, SymInt):
                return SymInt("-(%s)" % v.expr, lo=(-v.hi if v.hi is not None else None), hi=(-v.lo if v.lo is not None else None))
        if isinstance(e.op, ast.UAdd):
            return v
        raise Unsupported("unary operator on %r" % (v,))

    def e_BinOp(self, e):
        return self.binop(e.op, self.expr(e.left), self.expr(e.right), e)

    def binop(self, op, a, b, node):
        if isinstance(op, ast.Add):
            if is_strlike(a) and is_strlike(b):
                return concat(a, b)
            if type(a).__name__ == "PosMark" and isinstance(b, int) and not isinstance(b, bool):
                return a + b  # a position found by index()/rindex(), moved inside its literal part
            if isinstance(a, bool) or isinstance(b, bool):
                a, b = int(a) if isinstance(a, bool) else a, int(b) if isinstance(b, bool) else b
            if isinstance(a, int) and isinstance(b, int):
                return a + b
            if isinstance(a, (int, SymInt)) and isinstance(b, (int, SymInt)):
                (al, ah), (bl, bh) = _bounds(a), _bounds(b)
                return SymInt("(%s + %s)" % (_ie(a), _ie(b)), lo=(al + bl if None not in (al, bl) else None),
                              hi=(ah + bh if None not in (ah, bh) else None))
            if isinstance(a, list) and isinstance(b, list):
                return a + b
            if isinstance(a, tuple) and isinstance(b, tuple):
                return a + b
            if is_strlike(a) != is_strlike(b):
                raise PyRaise(ExcObj(self.it.builtins["TypeError"], ["can only concatenate str to str"]), node)
        if isinstance(op, ast.Sub):
            if isinstance(a, int) and isinstance(b, int):
                return a - b
            if isinstance(a, (int, SymInt)) and isinstance(b, (int, SymInt)):
                return SymInt("(%s - %s)" % (_ie(a), _ie(b)))
        if isinstance(op, ast.Mult):
            if isinstance(a, int) and isinstance(b, int):
                return a * b
            if isinstance(a, str) and isinstance(b, int):
                return a * b
            if isinstance(a, int) and isinstance(b, str):
                return a * b
            if isinstance(a, list) and isinstance(b, int):
                return a * b
            if isinstance(a, (int, SymInt)) and isinstance(b, (int, SymInt)):
                return SymInt("(%s * %s)" % (_ie(a), _ie(b)))
        if isinstance(op, ast.FloorDiv) and isinstance(a, int) and isinstance(b, int) and b:
            return a // b
        if isinstance(op, ast.Mod):
            if isinstance(a, int) and isinstance(b, int) and b:
                return a % b
            if isinstance(a, str):
                raise Unsupported("%-formatting")
        if isinstance(op, ast.Pow) and isinstance(a, int) and isinstance(b, int) and 0 <= b < 64:
            return a ** b
        if isinstance(op, ast.BitOr) and isinstance(a, dict) and isinstance(b, dict):
            return {**a, **b}
        raise Unsupported("operator %s on %r, %r at %s:%d" % (type(op).__name__, a, b, self.module.name, getattr(node, "lineno", 0)))

    def e_Compare(self, e):
        left = self.expr(e.left)
        for op, r in zip(e.ops, e.comparators):
            right = self.expr(r)
            if not self.compare(op, left, right, e):
                return False
            left = right
        return True

    def compare(self, op, a, b, node):
        if isinstance(op, ast.Is):
            return a is b or (isinstance(a, (bool, type(None))) and a == b and type(a) is type(b))
        if isinstance(op, ast.IsNot):
            return not self.compare(ast.Is(), a, b, node)
        if isinstance(op, (ast.Eq, ast.NotEq)):
            r = self.equals(a, b)
            return r if isinstance(op, ast.Eq) else not r
        if isinstance(op, (ast.In, ast.NotIn)):
            r = self.contains(b, a, node)
            return r if isinstance(op, ast.In) else not r
        if isinstance(a, bool):
            a = int(a)
        if isinstance(b, bool):
            b = int(b)
        if isinstance(a, int) and isinstance(b, int):
            return {ast.Lt: a < b, ast.Gt: a > b, ast.LtE: a <= b, ast.GtE: a >= b}[type(op)]
        if isinstance(a, (int, SymInt)) and isinstance(b, (int, SymInt)):
            return self.it.int_cmp(op, a, b)
        if isinstance(a, str) and isinstance(b, str):
            return {ast.Lt: a < b, ast.Gt: a > b, ast.LtE: a <= b, ast.GtE: a >= b}[type(op)]
        raise Unsupported("comparison %s of %r and %r" % (type(op).__name__, a, b))

    def equals(self, a, b):
        for x, y in ((a, b), (b, a)):
            if hasattr(x, "abs_eq"):
                return x.abs_eq(y)
        if is_strlike(a) and is_strlike(b):
            return str_eq(a, b)
        if isinstance(a, SymInt) or isinstance(b, SymInt):
            if isinstance(a, SymInt) and isinstance(b, SymInt) and a.expr == b.expr:
                return True
            if not isinstance(a, (int, SymInt)) or not isinstance(b, (int, SymInt)):
                return False
            return self.it.int_cmp(ast.Eq(), a, b)
        if is_strlike(a) != is_strlike(b):
            return False
        if isinstance(a, (list, tuple)) and isinstance(b, (list, tuple)):
            return type(a) is type(b) and len(a) == len(b) and all(self.equals(x, y) for x, y in zip(a, b))
        if isinstance(a, (Inst, UClass, Elem, Func, Module)) or isinstance(b, (Inst, UClass, Elem, Func, Module)):
            return a is b
        return a == b

    def contains(self, container, x, node):
        if isinstance(container, SDict):
            return container.has(x)
        if isinstance(container, dict):
            return (skey(x) if is_strlike(x) else x) in container
        if isinstance(container, SSet):
            return x in container
        if isinstance(container, (list, tuple, set)):
            return any(self.equals(x, y) for y in container)
        if isinstance(container, str) and isinstance(x, str):
            return x in container
        if is_strlike(container) and isinstance(x, str):
            return self.it.N.str_contains(container, x)
        if hasattr(container, "abs_contains"):
            return container.abs_contains(x)
        raise Unsupported("membership test %r in %r" % (x, container))

    def e_List(self, e):
        out = []
        for x in e.elts:
            if isinstance(x, ast.Starred):
                out.extend(self.it.iterate(self.expr(x.value)))
            else:
                out.append(self.expr(x))
        return out

    def e_Tuple(self, e):
        return tuple(self.e_List(e))

    def e_Set(self, e):
        return SSet(self.e_List(e))

    def e_Dict(self, e):
        d = SDict()
        for k, v in zip(e.keys, e.values):
            if k is None:
                raise Unsupported("dict unpacking")
            d.set(self.expr(k), self.expr(v))
        return d

    def e_Subscript(self, e):
        o = self.expr(e.value)
        if isinstance(e.slice, ast.Slice):
            lo = self.expr(e.slice.lower) if e.slice.lower else None
            hi = self.expr(e.slice.upper) if e.slice.upper else None
            st = self.expr(e.slice.step) if e.slice.step else None
            if isinstance(o, (str, list, tuple)) and all(x is None or isinstance(x, int) for x in (lo, hi, st)):
                return o[lo:hi:st]
            if is_strlike(o):
                return self.it.N.str_slice(o, lo, hi, st)
            raise Unsupported("slice of %r" % (o,))
        k = self.expr(e.slice)
        if isinstance(o, SDict):
            if not o.has(k):
                raise PyRaise(ExcObj(self.it.builtins["KeyError"], [k]), e)
            return o.get_(k)
        if isinstance(o, dict):
            kk = skey(k) if is_strlike(k) else k
            if kk not in o:
                raise PyRaise(ExcObj(self.it.builtins["KeyError"], [k]), e)
            return o[kk]
        if isinstance(o, (list, tuple, str)):
            if not isinstance(k, int):
                raise Unsupported("index %r" % (k,))
            if not -len(o) <= k < len(o):
                raise PyRaise(ExcObj(self.it.builtins["IndexError"], ["index out of range"]), e)
            return o[k]
        if hasattr(o, "abs_getitem"):
            return o.abs_getitem(k)
        if isinstance(o, (UClass, Native)):
            return o  # typing-style subscription (Optional[...]) has no runtime effect here
        raise Unsupported("subscript of %r" % (o,))

    def _comp(self, gens, fn):
        def rec(i, fr):
            if i == len(gens):
                fn(fr)
                return
            g = gens[i]
            for v in fr.it.iterate(fr.expr(g.iter), g.iter):
                env2 = ChainEnv(fr.env)
                fr2 = Frame(fr.it, fr.module, env2, fr.func)
                fr2.assign(g.target, v)
                if all(fr2.it.truth(fr2.expr(c)) for c in g.ifs):
                    rec(i + 1, fr2)
        rec(0, self)

    def e_ListComp(self, e):
        out = []
        self._comp(e.generators, lambda fr: out.append(fr.expr(e.elt)))
        return out

    def e_GeneratorExp(self, e):
        return self.e_ListComp(e)

    def e_SetComp(self, e):
        return SSet(self.e_ListComp(e))

    def e_DictComp(self, e):
        d = SDict()
        self._comp(e.generators, lambda fr: d.set(fr.expr(e.key), fr.expr(e.value)))
        return d

    def e_NamedExpr(self, e):
        v = self.expr(e.value)
        self.assign(e.target, v)
        return v

    def e_Starred(self, e):
        raise Unsupported("starred expression")


def _bounds(x):
    if isinstance(x, bool):
        return int(x), int(x)
    if isinstance(x, int):
        return x, x
    return x.lo, x.hi


def _decide_by_bounds(op, a, b):
    (al, ah), (bl, bh) = _bounds(a), _bounds(b)

    def lt(xh, yl):  # x < y certainly
        return xh is not None and yl is not None and xh < yl

    def le(xh, yl):
        return xh is not None and yl is not None and xh <= yl
    t = type(op)
    if t is ast.Gt:
        return True if lt(bh, al) else False if le(ah, bl) else None
    if t is ast.GtE:
        return True if le(bh, al) else False if lt(ah, bl) else None
    if t is ast.Lt:
        return True if lt(ah, bl) else False if le(bh, al) else None
    if t is ast.LtE:
        return True if le(ah, bl) else False if lt(bh, al) else None
    if t is ast.Eq:
        return False if (lt(ah, bl) or lt(bh, al)) else None
    if t is ast.NotEq:
        return True if (lt(ah, bl) or lt(bh, al)) else None
    return None


_S_DISPATCH = {getattr(ast, n[2:]): f for n, f in vars(Frame).items() if n.startswith("s_") and hasattr(ast, n[2:])}
_E_DISPATCH = {getattr(ast, n[2:]): f for n, f in vars(Frame).items() if n.startswith("e_") and hasattr(ast, n[2:])}


class SuperProxy:
    def __init__(self, cls, self_):
        self.cls, self.self_ = cls, self_


def _exc_match(c, h):
    if isinstance(h, tuple):
        return any(_exc_match(c, x) for x in h)
    if isinstance(h, ExcClass):
        return c.isa(h)
    return False


def _ie(x):
    return x.expr if isinstance(x, SymInt) else str(x)


_LOAD_CACHE = {}


def _as_load(t):
    hit = _LOAD_CACHE.get(id(t))
    if hit is not None and hit[0] is t:
        return hit[1]
    t2 = _as_load_uncached(t)
    _LOAD_CACHE[id(t)] = (t, t2)
    return t2


def _as_load_uncached(t):
    t2 = _copy.deepcopy(t)
    for n in ast.walk(t2):
        if hasattr(n, "ctx"):
            n.ctx = ast.Load()
    return t2


TRUNCATED = []


def explore(task, max_paths=4000, truncate=False):
    """Run task() under every choice vector; returns [(log, status, value)] with status 'ok'/'raise'.
    With truncate=True an exploration that exceeds max_paths stops there and is recorded in TRUNCATED
    (violations found on the explored paths are real; absence of violations then proves nothing)."""
    stack = [[]]
    out = []
    n = 0
    while stack:
        vec = stack.pop()
        World.chooser = Chooser(vec)
        World.trace = {}
        n += 1
        if n > max_paths:
            if truncate:
                TRUNCATED.append("exploration cut after %d paths" % max_paths)
                return out
            raise Unsupported("path explosion (> %d paths)" % max_paths)
        try:
            res = ("ok", task())
        except PyRaise as pr:
            res = ("raise", pr.exc)
        log = list(World.chooser.log)
        out.append((log, res[0], res[1], World.trace))
        for i in range(len(vec), len(log)):
            stack.append([v for _, v in log[:i]] + [True])
    return out
