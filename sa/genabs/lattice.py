"""Engine C: sweep the shape lattice through the interpreted generator, in parallel.

`sweep(repo, analyser, tier)` evaluates every (shape, placement) and calls
`analyser(shape, placement, outcomes)` in the worker; analysers return plain tuples
(rule, instance, ok, detail, key) so that results cross process boundaries.
"""
import hashlib
import importlib
import os
import pickle
import sys
from concurrent.futures import ProcessPoolExecutor

from ..core import AnalysisError
from . import shapes as S

_STATE = {}
CACHE = os.path.join(os.path.dirname(os.path.dirname(os.path.dirname(os.path.abspath(__file__)))), ".cache")


def enumerate_shapes(tier="quick", which=None):
    """[(family, shape, placements)]"""
    out = []
    fams = which or ("field", "array", "length", "dummy", "break", "chunked", "switch", "empty", "comment", "pair", "badtype")
    all_pl = S.PLACEMENTS
    few_pl = ["top", "chunked", "case"]
    if "field" in fams:
        for sh in S.field_shapes(tier=tier):
            out.append(("field", sh, all_pl if tier == "thorough" else few_pl))
    if "array" in fams:
        for sh in S.array_shapes(tier=tier):
            out.append(("array", sh, all_pl if tier == "thorough" else few_pl))
    if "length" in fams:
        for sh in S.length_shapes():
            out.append(("length", sh, all_pl if tier == "thorough" else few_pl))
    if "dummy" in fams:
        for sh in S.dummy_shapes():
            out.append(("dummy", sh, all_pl))
    if "break" in fams:
        out.append(("break", S.break_shape(), all_pl))
    if "chunked" in fams:
        for sh in S.chunked_shapes():
            out.append(("chunked", sh, all_pl))
    if "switch" in fams:
        for sh in S.switch_shapes():
            out.append(("switch", sh, all_pl))
    if "comment" in fams:
        for sh in S.comment_shapes():
            out.append(("comment", sh, few_pl))
    if "pair" in fams:
        for sh in S.pair_shapes():
            out.append(("pair", sh, few_pl))
    if "badtype" in fams:
        for sh in S.badtype_shapes():
            out.append(("badtype", sh, few_pl))
    if "empty" in fams:
        out.append(("empty", S.empty_object_shape(), all_pl))
    return out


def _init(repo):
    from ..index import Index
    from .driver import Session
    sys.setrecursionlimit(10000)
    _STATE["index"] = Index(repo)
    _STATE["session"] = Session(_STATE["index"])


def _work(args):
    tier, which, i, n = args
    items = enumerate_shapes(tier, which)[i::n]
    session = _STATE["session"]
    out = {}
    for fam, shape, placements in items:
        for pl in placements:
            try:
                out[(shape.key, pl)] = session.run_object(shape.make(pl))
            except AnalysisError as e:
                out[(shape.key, pl)] = "ERROR: %s" % e
    return out


def generator_digest(repo):
    h = hashlib.sha256()
    root = os.path.join(repo, "protocol_code_generator")
    for d, dirs, files in sorted(os.walk(root)):
        dirs.sort()
        for f in sorted(files):
            if f.endswith(".py"):
                p = os.path.join(d, f)
                h.update(os.path.relpath(p, repo).encode())
                h.update(open(p, "rb").read())
    for f in sorted(os.listdir(os.path.dirname(os.path.abspath(__file__)))):
        if f.endswith(".py"):
            h.update(open(os.path.join(os.path.dirname(os.path.abspath(__file__)), f), "rb").read())
    return h.hexdigest()[:24]


def compute(repo, tier="quick", which=None, jobs=None):
    """{(shape key, placement): [Outcome]} for the whole lattice; cached on disk by the digest of the generator's
    sources and of this engine (a cache hit is only ever a replay of the same analysis of the same tree)."""
    os.makedirs(CACHE, exist_ok=True)
    tag = "%s-%s-%s" % (generator_digest(repo), tier, "all" if which is None else "+".join(which))
    path = os.path.join(CACHE, "lattice-%s.pkl" % tag)
    if os.path.exists(path) and os.environ.get("VERIF_NO_CACHE") != "1":
        try:
            with open(path, "rb") as f:
                return pickle.load(f), True
        except Exception:
            pass
    jobs = jobs or min(16, os.cpu_count() or 1)
    n = jobs * 6
    chunks = [(tier, which, i, n) for i in range(n)]
    res = {}
    if jobs == 1:
        _init(repo)
        for c in chunks:
            res.update(_work(c))
    else:
        with ProcessPoolExecutor(max_workers=jobs, initializer=_init, initargs=(repo,)) as ex:
            for r in ex.map(_work, chunks):
                res.update(r)
    tmp = path + ".%d.tmp" % os.getpid()
    with open(tmp, "wb") as f:
        pickle.dump(res, f)
    os.replace(tmp, path)
    # keep the cache small: drop everything but the five most recent entries
    entries = sorted((os.path.getmtime(os.path.join(CACHE, x)), x) for x in os.listdir(CACHE) if x.startswith("lattice-"))
    keep = int(os.environ.get("VERIF_CACHE_KEEP", "5"))
    for _, x in entries[:-keep]:
        try:
            os.remove(os.path.join(CACHE, x))
        except OSError:
            pass
    return res, False


def sweep(repo, analyser, tier="quick", which=None, jobs=None):
    """Evaluate (or load) the lattice and apply `analyser(family, shape, placement, outcomes)` to every cell.
    Returns (list of obligation tuples, stats)."""
    res, cached = compute(repo, tier, which, jobs)
    items = enumerate_shapes(tier, which)
    out = []
    stats = {"shapes": len(items), "evaluations": 0, "paths": 0, "accepted": 0, "rejected": 0, "from cache": int(cached)}
    errors = []
    for fam, shape, placements in items:
        for pl in placements:
            oc = res.get((shape.key, pl))
            if oc is None:
                errors.append(("%r in %s" % (shape.key, pl), "missing from the lattice results"))
                continue
            if isinstance(oc, str):
                errors.append(("%r in %s" % (shape.key, pl), oc))
                continue
            stats["evaluations"] += 1
            stats["paths"] += len(oc)
            stats["accepted"] += sum(1 for o in oc if not o.rejected)
            stats["rejected"] += sum(1 for o in oc if o.rejected)
            out.extend(analyser(fam, shape, pl, oc))
    if errors:
        raise AnalysisError("engine C could not evaluate %d shape(s); first: %s -- %s" % (len(errors), errors[0][0], errors[0][1]))
    return out, stats
