"""Engine C-2, S-wire: extraction of the wire grammar from an emitted class.

From `serialize` a tree of write tokens, from `deserialize` the corresponding read tokens.
Tokens are recognised by data flow and call shape, never by the identifiers the generator
chooses for its locals.  An unrecognised statement form raises Unrecognised (exit 2).
"""
import ast

from ..core import AnalysisError
from .skel import is_attr, no_doc

PRIMS = {"add_byte": "byte", "add_char": "char", "add_short": "short", "add_three": "three", "add_int": "int"}
RPRIMS = {"get_byte": "byte", "get_char": "char", "get_short": "short", "get_three": "three", "get_int": "int"}


class Unrecognised(AnalysisError):
    pass


def src(e):
    return ast.unparse(e)


def norm_value(e):
    """Value expression written: strips cast(), keeps int()/bool->int/offset wrappers as a tuple chain."""
    if isinstance(e, ast.BinOp) and isinstance(e.op, (ast.Add, ast.Sub)) and isinstance(e.right, (ast.Constant, ast.Name)):
        return ("off", norm_value(e.left), "+" if isinstance(e.op, ast.Add) else "-", src(e.right))
    if isinstance(e, ast.Call) and isinstance(e.func, ast.Name) and e.func.id == "cast" and len(e.args) == 2:
        return norm_value(e.args[1])
    if isinstance(e, ast.Call) and isinstance(e.func, ast.Name) and e.func.id == "int" and len(e.args) == 1:
        return ("int", norm_value(e.args[0]))
    if isinstance(e, ast.IfExp) and isinstance(e.body, ast.Constant) and e.body.value == 1 and isinstance(e.orelse, ast.Constant) and e.orelse.value == 0:
        return ("b2i", norm_value(e.test))
    return src(e)


def has_cast(e):
    return any(isinstance(n, ast.Call) and isinstance(n.func, ast.Name) and n.func.id == "cast" for n in ast.walk(e))


def is_raise_ser(st):
    return (isinstance(st, ast.Raise) and isinstance(st.exc, ast.Call) and isinstance(st.exc.func, ast.Name)
            and st.exc.func.id == "SerializationError")


# ---------------------------------------------------------------- serialize
class WriteGrammar:
    def __init__(self, fn, cname):
        self.cname = cname
        params = [a.arg for a in fn.args.args]
        self.writer, self.data = params[0], params[1]
        self.old_len_var = None
        self.mode_var = None
        body = no_doc(fn.body)
        tr = None
        for st in body:
            if isinstance(st, ast.Try):
                tr = st
            elif isinstance(st, (ast.Assign, ast.AnnAssign)):
                tgt = st.targets[0] if isinstance(st, ast.Assign) else st.target
                val = st.value
                if isinstance(tgt, ast.Name) and val is not None and src(val) == "len(%s)" % self.writer:
                    self.old_len_var = tgt.id
        if tr is None:
            raise Unrecognised("%s.serialize has no try block" % cname)
        self.opt_vars = {}  # variable -> list of fields OR-ed into it
        self.tokens = self.block(tr.body)

    def block(self, body):
        out = []
        i = 0
        while i < len(body):
            st = body[i]
            tok = self.stmt(st)
            if tok is not None:
                if isinstance(tok, list):
                    out.extend(tok)
                else:
                    out.append(tok)
            i += 1
        return out

    def call_token(self, c):
        f = c.func
        if isinstance(f, ast.Attribute) and isinstance(f.value, ast.Name) and f.value.id == self.writer:
            m = f.attr
            a = c.args
            if m in PRIMS and len(a) == 1:
                if m == "add_byte" and isinstance(a[0], ast.Constant) and a[0].value == 0xFF:
                    return ("break",)
                return ("prim", PRIMS[m], norm_value(a[0]))
            if m in ("add_string", "add_encoded_string") and len(a) == 1:
                return ("str", m == "add_encoded_string", norm_value(a[0]))
            if m in ("add_fixed_string", "add_fixed_encoded_string") and len(a) == 3:
                return ("fixstr", m == "add_fixed_encoded_string", norm_value(a[0]), src(a[1]), src(a[2]))
            if m == "add_bytes" and len(a) == 1:
                return ("blob", norm_value(a[0]))
            raise Unrecognised("writer call %s" % src(c))
        if isinstance(f, ast.Attribute) and f.attr == "serialize" and len(c.args) == 2 and src(c.args[0]) == self.writer:
            return ("struct", src(f.value), norm_value(c.args[1]))
        raise Unrecognised("call %s in serialize" % src(c))

    def stmt(self, st):
        if isinstance(st, ast.Pass):
            return None
        if isinstance(st, ast.Expr) and isinstance(st.value, ast.Call):
            return self.call_token(st.value)
        if isinstance(st, ast.Assign) and len(st.targets) == 1:
            t, v = st.targets[0], st.value
            if is_attr(t, self.writer, "string_sanitization_mode") and isinstance(v, ast.Constant) and isinstance(v.value, bool):
                return ("san", v.value)
            if is_attr(t, self.writer, "string_sanitization_mode"):
                return ("san", "<%s>" % src(v)[:40])  # a non-literal mode inside the body: compared (and refused) like any token
            if isinstance(t, ast.Name):
                # optional chain: V = data._x is None | V = V or data._x is None
                fields = self.none_chain(v, t.id)
                if fields is not None:
                    self.opt_vars[t.id] = fields
                    return ("optvar", tuple(fields))
            raise Unrecognised("assignment %s in serialize" % src(st))
        if isinstance(st, ast.If):
            return self.if_token(st)
        if isinstance(st, ast.For):
            if not (isinstance(st.iter, ast.Call) and isinstance(st.iter.func, ast.Name) and st.iter.func.id == "range" and len(st.iter.args) == 1
                    and isinstance(st.target, ast.Name)):
                raise Unrecognised("loop %s" % src(st.iter))
            idx = st.target.id
            body = []
            for s2 in st.body:
                if isinstance(s2, ast.If) and src(s2.test) == "%s > 0" % idx and not s2.orelse:
                    body.append(("if_not_first", self.block(s2.body)))
                else:
                    tok = self.stmt(s2)
                    if tok is not None:
                        body.extend(tok if isinstance(tok, list) else [tok])
            return ("loop", src(st.iter.args[0]), body, idx)
        raise Unrecognised("statement %s in serialize" % src(st)[:80])

    def none_chain(self, v, target):
        def is_none_test(e):
            if isinstance(e, ast.Compare) and len(e.ops) == 1 and isinstance(e.ops[0], ast.Is) and isinstance(e.comparators[0], ast.Constant) \
                    and e.comparators[0].value is None and isinstance(e.left, ast.Attribute) and isinstance(e.left.value, ast.Name) and e.left.value.id == self.data:
                return e.left.attr
            return None
        f = is_none_test(v)
        if f is not None:
            return [f]
        if isinstance(v, ast.BoolOp) and isinstance(v.op, ast.Or) and len(v.values) == 2 and isinstance(v.values[0], ast.Name):
            f = is_none_test(v.values[1])
            prev = v.values[0].id
            if f is not None:
                if prev not in self.opt_vars:
                    return ["<unbound:%s>" % prev, f]
                return list(self.opt_vars[prev]) + [f]
        return None

    def if_token(self, st):
        t = st.test
        # guards: body is a single raise SerializationError
        if len(st.body) == 1 and is_raise_ser(st.body[0]) and not st.orelse:
            if isinstance(t, ast.Compare) and len(t.ops) == 1:
                l, op, r = t.left, t.ops[0], t.comparators[0]
                if isinstance(op, ast.Is) and isinstance(r, ast.Constant) and r.value is None and is_attr(l, self.data, getattr(l, "attr", "")):
                    return ("none_guard", l.attr)
                if isinstance(op, ast.IsNot) and isinstance(r, ast.Constant) and r.value is None and is_attr(l, self.data, getattr(l, "attr", "")):
                    return ("case_none_guard", l.attr)
                if isinstance(l, ast.Call) and isinstance(l.func, ast.Name) and l.func.id == "len" and len(l.args) == 1 \
                        and is_attr(l.args[0], self.data, getattr(l.args[0], "attr", "")):
                    ops = {ast.NotEq: "!=", ast.Gt: ">", ast.GtE: ">=", ast.Lt: "<", ast.LtE: "<=", ast.Eq: "=="}
                    return ("len_guard", l.args[0].attr, ops.get(type(op), "?"), src(r))
            if isinstance(t, ast.UnaryOp) and isinstance(t.op, ast.Not) and isinstance(t.operand, ast.Call) and isinstance(t.operand.func, ast.Name) \
                    and t.operand.func.id == "isinstance" and len(t.operand.args) == 2 and is_attr(t.operand.args[0], self.data, getattr(t.operand.args[0], "attr", "")):
                return ("case_type_guard", t.operand.args[0].attr, src(t.operand.args[1]))
            raise Unrecognised("guard %s" % src(t))
        # optional guard: if not V
        if isinstance(t, ast.UnaryOp) and isinstance(t.op, ast.Not) and isinstance(t.operand, ast.Name) and not st.orelse:
            v = t.operand.id
            fields = self.opt_vars.get(v)
            return ("opt", tuple(fields) if fields is not None else ("<unbound:%s>" % v,), self.block(st.body))
        # dummy guard: if len(writer) == old_len
        if isinstance(t, ast.Compare) and len(t.ops) == 1 and isinstance(t.ops[0], ast.Eq) and src(t.left) == "len(%s)" % self.writer \
                and not st.orelse:
            # "nothing written by this object yet": only a comparison with the length saved at entry says that
            c = t.comparators[0]
            ok = isinstance(c, ast.Name) and c.id == self.old_len_var
            return ("dummy_guard", self.block(st.body), ok)
        # switch: if data._k == V ... elif ... else
        if isinstance(t, ast.Compare) and len(t.ops) == 1 and isinstance(t.ops[0], ast.Eq) and is_attr(t.left, self.data, getattr(t.left, "attr", "")):
            field = t.left.attr
            arms = []
            cur = st
            while True:
                tt = cur.test
                if not (isinstance(tt, ast.Compare) and len(tt.ops) == 1 and isinstance(tt.ops[0], ast.Eq) and is_attr(tt.left, self.data, field)):
                    raise Unrecognised("switch arm %s" % src(tt))
                arms.append((("eq", src(tt.comparators[0])), self.block(cur.body)))
                if len(cur.orelse) == 1 and isinstance(cur.orelse[0], ast.If) and isinstance(cur.orelse[0].test, ast.Compare) \
                        and is_attr(cur.orelse[0].test.left, self.data, field):
                    cur = cur.orelse[0]
                    continue
                if cur.orelse:
                    arms.append((("else",), self.block(cur.orelse)))
                break
            return ("switch", field, arms)
        raise Unrecognised("if %s in serialize" % src(t))


# ---------------------------------------------------------------- deserialize
class ReadGrammar:
    def __init__(self, fn, cname):
        self.cname = cname
        self.reader = fn.args.args[0].arg
        body = no_doc(fn.body)
        tr = next((st for st in body if isinstance(st, ast.Try)), None)
        if tr is None:
            raise Unrecognised("%s.deserialize has no try block" % cname)
        self.start_var = None
        self.start_index = None
        self.ctor = None
        self.byte_size = None
        self.returns = None
        self.optional_inits = {}
        stmts = list(tr.body)
        # tail: result = C(...); result._byte_size = reader.position - start; return result
        self.tokens = self.block(stmts, top=True)

    def read_expr(self, e):
        """A reading expression -> token core (without target)."""
        if isinstance(e, ast.Call) and isinstance(e.func, ast.Name) and e.func.id == "bool" and len(e.args) == 1 and not e.keywords:
            return ("wrap", "neq0", self.read_expr(e.args[0]))
        if isinstance(e, ast.UnaryOp) and isinstance(e.op, ast.Not) and isinstance(e.operand, ast.Compare):
            inner = self.read_expr(e.operand)
            if inner[0] == "wrap" and isinstance(inner[1], tuple) and inner[1][0] == "test":
                flipped = tuple((x, not v) for x, v in inner[1][1])
                return ("wrap", "neq0" if all(v == (x != 0) for x, v in flipped) else ("test", flipped), inner[2])
        if isinstance(e, ast.Compare) and len(e.ops) == 1:
            # a number turned into a truth value: the reference is "!= 0"; any other test is kept as its truth table over
            # sample numbers (zero, both signs, large), which differs from the reference's exactly when the test does
            l, r = e.left, e.comparators[0]
            const = r if isinstance(r, ast.Constant) else l if isinstance(l, ast.Constant) else None
            other = l if const is r else r
            if const is not None and type(const.value) is int and not isinstance(other, ast.Constant):
                import operator
                ops = {ast.NotEq: operator.ne, ast.Eq: operator.eq, ast.Lt: operator.lt, ast.LtE: operator.le, ast.Gt: operator.gt, ast.GtE: operator.ge}
                fn = ops.get(type(e.ops[0]))
                if fn is not None:
                    core = self.read_expr(other)
                    table = tuple((x, bool(fn(x, const.value) if const is r else fn(const.value, x))) for x in (-2, -1, 0, 1, 2, 252, 253, 64008))
                    return ("wrap", "neq0" if all(v == (x != 0) for x, v in table) else ("test", table), core)
        if isinstance(e, ast.BinOp) and isinstance(e.op, (ast.Add, ast.Sub)) and isinstance(e.right, (ast.Constant, ast.Name)):
            return ("wrap", ("off", "+" if isinstance(e.op, ast.Add) else "-", src(e.right)), self.read_expr(e.left))
        if isinstance(e, ast.Call):
            f = e.func
            if isinstance(f, ast.Attribute) and isinstance(f.value, ast.Name) and f.value.id == self.reader:
                m, a = f.attr, e.args
                if m in RPRIMS and not a:
                    return ("prim", RPRIMS[m])
                if m in ("get_string", "get_encoded_string") and not a:
                    return ("str", m == "get_encoded_string")
                if m in ("get_fixed_string", "get_fixed_encoded_string") and len(a) == 2:
                    return ("fixstr", m == "get_fixed_encoded_string", src(a[0]), src(a[1]))
                if m == "get_bytes" and len(a) == 1:
                    return ("blob", src(a[0]))
                raise Unrecognised("reader call %s" % src(e))
            if isinstance(f, ast.Attribute) and f.attr == "deserialize" and len(e.args) == 1 and src(e.args[0]) == self.reader:
                return ("struct", src(f.value))
            if isinstance(f, (ast.Name, ast.Attribute)) and len(e.args) == 1 and isinstance(e.args[0], (ast.Call, ast.BinOp)):
                inner = self.read_expr(e.args[0])
                return ("wrap", ("enum", src(f)), inner)
        raise Unrecognised("read expression %s" % src(e)[:70])

    def block(self, body, top=False):
        out = []
        i = 0
        while i < len(body):
            st = body[i]
            # array prologue: [X_len = int(reader.remaining / SIZE)]; X = []; loop
            if isinstance(st, (ast.Assign, ast.AnnAssign)):
                tgt = st.targets[0] if isinstance(st, ast.Assign) else st.target
                val = st.value
                if isinstance(tgt, ast.Name):
                    if top and src(val) == "%s.position" % self.reader and self.start_var is None and isinstance(st, ast.AnnAssign):
                        self.start_var = tgt.id
                        self.start_index = len(out)
                        i += 1
                        continue
                    if isinstance(val, ast.Constant) and val.value is None:
                        out.append(("init_none", tgt.id))
                        i += 1
                        continue
                    if isinstance(val, ast.List) and not val.elts:
                        out.append(("init_list", tgt.id))
                        i += 1
                        continue
                    cnt = self.count_from_remaining(val)
                    if cnt is not None:
                        out.append(("count_var", tgt.id, cnt))
                        i += 1
                        continue
                    if top and isinstance(val, ast.Call) and tgt.id == "result" or (top and isinstance(val, ast.Call) and self._is_ctor(val)):
                        self.ctor = (tgt.id, src(val.func), {k.arg: src(k.value) for k in val.keywords}, len(val.args))
                        i += 1
                        continue
                    out.append(("read", tgt.id, self.read_expr(val)))
                    i += 1
                    continue
                if isinstance(tgt, ast.Attribute) and is_attr(tgt, self.reader, "chunked_reading_mode"):
                    out.append(("mode", val.value if isinstance(val, ast.Constant) else "<%s>" % src(val)[:40]))
                    i += 1
                    continue
                if isinstance(tgt, ast.Attribute) and tgt.attr == "_byte_size" and top:
                    self.byte_size = (src(tgt.value), src(val))
                    i += 1
                    continue
                raise Unrecognised("assignment %s in deserialize" % src(st)[:70])
            if isinstance(st, ast.Return) and top:
                self.returns = src(st.value) if st.value is not None else None
                i += 1
                continue
            if isinstance(st, ast.Expr) and not isinstance(st.value, ast.Call) and not isinstance(st.value, ast.Constant):
                out.append(("read", None, self.read_expr(st.value)))
                i += 1
                continue
            if isinstance(st, ast.Expr) and isinstance(st.value, ast.Call):
                c = st.value
                if isinstance(c.func, ast.Attribute) and is_attr(c.func, self.reader, "next_chunk") and not c.args:
                    out.append(("next_chunk",))
                elif isinstance(c.func, ast.Attribute) and c.func.attr == "append" and isinstance(c.func.value, ast.Name) and len(c.args) == 1:
                    out.append(("append", c.func.value.id, self.read_expr(c.args[0])))
                else:
                    out.append(("read", None, self.read_expr(c)))
                i += 1
                continue
            if isinstance(st, ast.If):
                out.append(self.if_token(st))
                i += 1
                continue
            if isinstance(st, ast.For):
                if not (isinstance(st.iter, ast.Call) and isinstance(st.iter.func, ast.Name) and st.iter.func.id == "range" and len(st.iter.args) == 1):
                    raise Unrecognised("loop %s in deserialize" % src(st.iter))
                n = src(st.iter.args[0])
                idx = st.target.id if isinstance(st.target, ast.Name) else "?"
                body2 = []
                for s2 in st.body:
                    if isinstance(s2, ast.If) and src(s2.test) == "%s + 1 < %s" % (idx, n) and not s2.orelse:
                        body2.append(("if_not_last", self.block(s2.body)))
                    else:
                        body2.extend(self.block([s2]))
                out.append(("for", n, body2))
                i += 1
                continue
            if isinstance(st, ast.While):
                if src(st.test) != "%s.remaining > 0" % self.reader:
                    raise Unrecognised("while %s" % src(st.test))
                out.append(("while_remaining", self.block(st.body)))
                i += 1
                continue
            if isinstance(st, ast.Pass):
                i += 1
                continue
            raise Unrecognised("statement %s in deserialize" % src(st)[:70])
        return out

    def _is_ctor(self, call):
        return isinstance(call.func, (ast.Name, ast.Attribute)) and src(call.func).split(".")[-1] == self.cname.split(".")[-1] and not call.args

    def count_from_remaining(self, val):
        # int(reader.remaining / SIZE)   or   reader.remaining // SIZE
        if isinstance(val, ast.Call) and isinstance(val.func, ast.Name) and val.func.id == "int" and len(val.args) == 1:
            b = val.args[0]
            if isinstance(b, ast.BinOp) and isinstance(b.op, ast.Div) and src(b.left) == "%s.remaining" % self.reader:
                return src(b.right)
        if isinstance(val, ast.BinOp) and isinstance(val.op, ast.FloorDiv) and src(val.left) == "%s.remaining" % self.reader:
            return src(val.right)
        return None

    def if_token(self, st):
        t = st.test
        if src(t) == "%s.remaining > 0" % self.reader and not st.orelse:
            return ("if_remaining", self.block(st.body))
        if isinstance(t, ast.Compare) and len(t.ops) == 1 and isinstance(t.ops[0], ast.Eq) and src(t.left) == "%s.position" % self.reader \
                and not st.orelse:
            c = t.comparators[0]
            return ("dummy_guard", self.block(st.body), isinstance(c, ast.Name) and c.id == self.start_var)
        if isinstance(t, ast.Compare) and len(t.ops) == 1 and isinstance(t.ops[0], ast.Eq) and isinstance(t.left, ast.Name):
            field = t.left.id
            arms = []
            cur = st
            while True:
                tt = cur.test
                if not (isinstance(tt, ast.Compare) and isinstance(tt.left, ast.Name) and tt.left.id == field and isinstance(tt.ops[0], ast.Eq)):
                    raise Unrecognised("switch arm %s" % src(tt))
                arms.append((("eq", src(tt.comparators[0])), self.block(cur.body)))
                if len(cur.orelse) == 1 and isinstance(cur.orelse[0], ast.If) and isinstance(cur.orelse[0].test, ast.Compare) \
                        and isinstance(cur.orelse[0].test.left, ast.Name) and cur.orelse[0].test.left.id == field:
                    cur = cur.orelse[0]
                    continue
                if cur.orelse:
                    arms.append((("else",), self.block(cur.orelse)))
                break
            return ("switch", field, arms)
        raise Unrecognised("if %s in deserialize" % src(t))
