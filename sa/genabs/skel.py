"""Engine C-2: rules on the skeleton of an emitted class (ordinary AST analyses).

Every rule returns a list of findings [(rule id, construct, detail)]; empty = discharged.
Names chosen by the generator for its locals are never relied upon: tokens are recognised
by data flow (what a variable was assigned from), not by identifiers.
"""
import ast
import builtins
import re

WRITER_MODE = "string_sanitization_mode"
READER_MODE = "chunked_reading_mode"


def classes_of(tree):
    """All classes in the skeleton, outermost first, with their dotted names."""
    out = []

    def rec(body, prefix):
        for st in body:
            if isinstance(st, ast.ClassDef):
                name = prefix + st.name
                out.append((name, st))
                rec(st.body, name + ".")
    rec(tree.body, "")
    return out


def methods_of(cls):
    return {st.name: st for st in cls.body if isinstance(st, ast.FunctionDef)}


def no_doc(body):
    if body and isinstance(body[0], ast.Expr) and isinstance(body[0].value, ast.Constant) and isinstance(body[0].value.value, str):
        return body[1:]
    return body


def is_attr(e, obj, attr):
    return isinstance(e, ast.Attribute) and isinstance(e.value, ast.Name) and e.value.id == obj and e.attr == attr


# ---------------------------------------------------------------- S-parse
def s_parse(skel):
    try:
        skel.tree()
    except SyntaxError as e:
        line = skel.text.splitlines()[e.lineno - 1] if e.lineno and e.lineno <= len(skel.text.splitlines()) else ""
        return [("S-parse", "generated class", "does not compile: %s at line %s: %r" % (e.msg, e.lineno, line.strip()[:80]))]
    if skel.indent_after not in (0, None):
        return [("S-parse", "generated class", "indentation not balanced after the class: %r" % (skel.indent_after,))]
    return []


# ---------------------------------------------------------------- S-defuse
BUILTIN_NAMES = set(dir(builtins))


class DefUse:
    """Definite-assignment analysis of one function body."""

    def __init__(self, known, literal_holes):
        self.known = set(known)
        self.literal = set(literal_holes)
        self.unbound = []  # (name, lineno)

    def run(self, fn):
        bound = {a.arg for a in fn.args.posonlyargs + fn.args.args + fn.args.kwonlyargs}
        if fn.args.vararg:
            bound.add(fn.args.vararg.arg)
        if fn.args.kwarg:
            bound.add(fn.args.kwarg.arg)
        self.block(fn.body, bound)
        return self.unbound

    def use(self, e, bound):
        if e is None:
            return
        for n in ast.walk(e):
            if isinstance(n, ast.Name) and isinstance(n.ctx, ast.Load):
                if n.id not in bound and n.id not in self.known and n.id not in BUILTIN_NAMES and n.id not in self.literal:
                    self.unbound.append((n.id, n.lineno))
            elif isinstance(n, (ast.Lambda, ast.ListComp, ast.GeneratorExp, ast.SetComp, ast.DictComp)):
                pass  # comprehension targets are rare in emitted code; treated conservatively below

    def bind_target(self, t, bound):
        for n in ast.walk(t):
            if isinstance(n, ast.Name) and isinstance(n.ctx, ast.Store):
                bound.add(n.id)
            elif isinstance(n, (ast.Attribute, ast.Subscript)):
                self.use(n.value, bound)

    def block(self, body, bound):
        """Mutates `bound`; returns True if the block always leaves (return/raise)."""
        for st in body:
            if self.stmt(st, bound):
                return True
        return False

    def stmt(self, st, bound):
        if isinstance(st, ast.Assign):
            self.use(st.value, bound)
            for t in st.targets:
                self.bind_target(t, bound)
        elif isinstance(st, ast.AnnAssign):
            self.use(st.value, bound)
            if st.value is not None:
                self.bind_target(st.target, bound)
        elif isinstance(st, ast.AugAssign):
            self.use(st.value, bound)
            self.use(ast.Name(id=st.target.id, ctx=ast.Load(), lineno=st.lineno) if isinstance(st.target, ast.Name) else st.target.value, bound)
        elif isinstance(st, ast.Expr):
            self.use(st.value, bound)
        elif isinstance(st, ast.Return):
            self.use(st.value, bound)
            return True
        elif isinstance(st, ast.Raise):
            self.use(st.exc, bound)
            return True
        elif isinstance(st, ast.If):
            self.use(st.test, bound)
            b1, b2 = set(bound), set(bound)
            e1 = self.block(st.body, b1)
            e2 = self.block(st.orelse, b2)
            if e1 and e2:
                return True
            if e1:
                bound |= b2
            elif e2:
                bound |= b1
            else:
                bound |= (b1 & b2)
        elif isinstance(st, ast.For):
            self.use(st.iter, bound)
            b = set(bound)
            self.bind_target(st.target, b)
            self.block(st.body, b)
            self.block(st.orelse, set(bound))
        elif isinstance(st, ast.While):
            self.use(st.test, bound)
            self.block(st.body, set(bound))
        elif isinstance(st, ast.Try):
            before = set(bound)
            b = set(bound)
            left = self.block(st.body, b)
            for h in st.handlers:
                hb = set(before)
                if h.name:
                    hb.add(h.name)
                self.block(h.body, hb)
            fb = set(before)
            self.block(st.finalbody, fb)
            if left and not st.handlers:
                return True
            bound |= (b if not st.handlers else before)
            bound |= (fb - before)
        elif isinstance(st, ast.With):
            for i in st.items:
                self.use(i.context_expr, bound)
                if i.optional_vars is not None:
                    self.bind_target(i.optional_vars, bound)
            return self.block(st.body, bound)
        elif isinstance(st, (ast.Pass, ast.Break, ast.Continue)):
            pass
        elif isinstance(st, (ast.FunctionDef, ast.ClassDef)):
            bound.add(st.name)
        elif isinstance(st, (ast.Import, ast.ImportFrom)):
            for a in st.names:
                bound.add((a.asname or a.name).split(".")[0])
        elif isinstance(st, ast.Delete):
            pass
        else:
            for n in ast.walk(st):
                if isinstance(n, ast.expr):
                    self.use(n, bound)
                    break
        return False


def literal_holes(skel):
    """Placeholder identifiers that stand for literal text validated as such (digits, ints): they are values,
    not variables."""
    out = set()
    for ident, info in skel.holes.items():
        if info["kind"] == "int":
            out.add(ident)
        elif info["preds"].get("isdigit") is True or info["preds"].get("isint") is True:
            out.add(ident)
    return out


def s_defuse(skel, extra_known=()):
    """Every free name of every emitted function is bound on every path, or is a class-level name, a builtin,
    a name imported by the same CodeBlock, or the class (hierarchy) itself."""
    tree = skel.tree()
    imported = {n for n, _ in skel.imports if isinstance(n, str)}
    lits = literal_holes(skel)
    findings = []
    all_classes = classes_of(tree)
    top_names = {name.split(".")[0] for name, _ in all_classes}
    for cname, cls in all_classes:
        class_level = set()
        for st in cls.body:
            if isinstance(st, ast.ClassDef):
                class_level.add(st.name)
            elif isinstance(st, ast.Assign):
                for t in st.targets:
                    if isinstance(t, ast.Name):
                        class_level.add(t.id)
        for fn in methods_of(cls).values():
            du = DefUse(imported | top_names | set(extra_known), lits)
            for name, line in du.run(fn):
                code = "unbound-%s-in-%s" % ("placeholder" if name.startswith("h_") else re.sub(r"\W", "", name), fn.name.strip("_"))
                findings.append(("S-defuse", "%s.%s" % (cname, fn.name), "[%s] name %s is read at line %d but not bound on every path "
                                 "(not a parameter, local, builtin or import of this file)" % (code, name, line)))
        # annotations and class-level expressions use imported names too
        for st in cls.body:
            if isinstance(st, ast.AnnAssign):
                for n in ast.walk(st.annotation):
                    if isinstance(n, ast.Name) and n.id not in imported and n.id not in BUILTIN_NAMES and n.id not in top_names and n.id not in class_level:
                        if not _future_annotations(skel):
                            findings.append(("S-defuse", "%s annotation" % cname, "annotation name %s is not imported" % n.id))
    return findings


def _future_annotations(skel):
    return any(n == "annotations" and p == "__future__" for n, p in skel.imports if isinstance(n, str) and isinstance(p, str))


# ---------------------------------------------------------------- S-mode (C15)
def s_mode(skel, expect_brackets=None):
    """Typestate on writer.string_sanitization_mode (serialize) and reader.chunked_reading_mode (deserialize)."""
    findings = []
    for cname, cls in classes_of(skel.tree()):
        ms = methods_of(cls)
        for mname, obj, attr in (("serialize", "writer", WRITER_MODE), ("deserialize", "reader", READER_MODE)):
            fn = ms.get(mname)
            where = "%s.%s" % (cname, mname)
            if fn is None:
                findings.append(("S-mode", where, "method missing"))
                continue
            params = [a.arg for a in fn.args.args]
            if not params:
                findings.append(("S-mode", where, "no %s parameter" % obj))
                continue
            obj_name = params[0]
            body = no_doc(fn.body)
            saved = None
            idx_try = None
            for i, st in enumerate(body):
                if isinstance(st, ast.Try):
                    idx_try = i
                    break
                # statements before the try: the save, and pure reads of sizes/positions
                val = st.value if isinstance(st, (ast.Assign, ast.AnnAssign)) else None
                tgt = (st.targets[0] if isinstance(st, ast.Assign) and len(st.targets) == 1 else st.target if isinstance(st, ast.AnnAssign) else None)
                if val is not None and isinstance(tgt, ast.Name) and is_attr(val, obj_name, attr):
                    if saved is not None:
                        findings.append(("S-mode", where, "mode saved twice"))
                    saved = tgt.id
                elif val is not None and isinstance(tgt, ast.Name) and _pure_read(val, obj_name):
                    pass
                else:
                    findings.append(("S-mode", where, "statement before the try/finally that is neither the mode save nor a pure read: %s"
                                     % ast.unparse(st)[:70]))
            if saved is None:
                findings.append(("S-mode", where, "the entry mode is never saved before the body runs"))
                continue
            if idx_try is None:
                findings.append(("S-mode", where, "body is not protected by try/finally: an exception leaves the mode changed"))
                continue
            tr = body[idx_try]
            rest = body[idx_try + 1:]
            if rest:
                findings.append(("S-mode", where, "statements after the try/finally: %s" % ast.unparse(rest[0])[:60]))
            if tr.handlers and any(_swallows(h) for h in tr.handlers):
                findings.append(("S-mode", where, "an except clause swallows exceptions of the body"))
            # finally: last write to the mode restores the saved variable
            writes = [st for st in tr.finalbody if isinstance(st, ast.Assign) and len(st.targets) == 1 and is_attr(st.targets[0], obj_name, attr)]
            if not writes:
                findings.append(("S-mode", where, "finally block does not restore the mode"))
            else:
                last = writes[-1]
                if not (isinstance(last.value, ast.Name) and last.value.id == saved):
                    findings.append(("S-mode", where, "finally restores %s instead of the saved entry mode %s" % (ast.unparse(last.value), saved)))
                for st in tr.finalbody:
                    if st is not last and not (isinstance(st, ast.Assign) and st in writes):
                        if any(isinstance(n, (ast.Raise, ast.Return)) for n in ast.walk(st)):
                            findings.append(("S-mode", where, "finally block can leave before restoring the mode"))
            # the saved variable is never reassigned
            for n in ast.walk(fn):
                if isinstance(n, ast.Name) and n.id == saved and isinstance(n.ctx, ast.Store):
                    if not any(n is (s2.targets[0] if isinstance(s2, ast.Assign) else getattr(s2, "target", None)) for s2 in body[:idx_try]):
                        findings.append(("S-mode", where, "saved mode variable %s is reassigned at line %d" % (saved, n.lineno)))
            # writes inside the body are the constants True/False, bracketing statement lists
            opened = _mode_writes(tr.body, obj_name, attr, findings, where)
            if expect_brackets is not None and cname.count(".") == 0 and opened != expect_brackets.get(mname, opened):
                findings.append(("S-mode", where, "%d mode bracket(s) emitted, the spec has %d top-level <chunked> section(s)"
                                 % (opened, expect_brackets[mname])))
    return findings


def _pure_read(val, obj):
    src = ast.unparse(val)
    return src in ("len(%s)" % obj, "%s.position" % obj, "%s.remaining" % obj)


def _swallows(h):
    return not any(isinstance(n, ast.Raise) for n in ast.walk(h))


def _mode_writes(body, obj, attr, findings, where, depth=0):
    """Check that writes to the mode inside the protected body are literal True/False and properly bracketed
    within one statement list; returns the number of True-brackets opened at this level and below."""
    opened = 0
    state = None  # None = inherited, True = inside a bracket
    for st in body:
        if isinstance(st, ast.Assign) and len(st.targets) == 1 and is_attr(st.targets[0], obj, attr):
            v = st.value
            if not (isinstance(v, ast.Constant) and isinstance(v.value, bool)):
                findings.append(("S-mode", where, "mode set to a non-literal inside the body: %s" % ast.unparse(st)))
                continue
            if v.value is True:
                if state is True:
                    findings.append(("S-mode", where, "mode switched on twice without switching off (line %d)" % st.lineno))
                state = True
                opened += 1
            else:
                if state is not True:
                    findings.append(("S-mode", where, "mode switched off at line %d without a matching switch-on in the same block" % st.lineno))
                state = None
        else:
            for sub in _sub_blocks(st):
                opened += _mode_writes(sub, obj, attr, findings, where, depth + 1)
            if state is True and any(isinstance(n, ast.Return) for n in ast.walk(st)):
                findings.append(("S-mode", where, "return inside a chunked bracket at line %d" % st.lineno))
    if state is True:
        findings.append(("S-mode", where, "mode switched on but never switched off again in the same block: "
                         "what follows the <chunked> section keeps the chunked mode"))
    return opened


def _sub_blocks(st):
    out = []
    for f in ("body", "orelse", "finalbody"):
        b = getattr(st, f, None)
        if isinstance(b, list) and b and isinstance(b[0], ast.stmt):
            out.append(b)
    for h in getattr(st, "handlers", []) or []:
        out.append(h.body)
    return out


# ---------------------------------------------------------------- S-immut (C19)
def s_immut(skel):
    findings = []
    for cname, cls in classes_of(skel.tree()):
        ms = methods_of(cls)
        fields = [st.target.id for st in cls.body if isinstance(st, ast.AnnAssign) and isinstance(st.target, ast.Name)]
        ann = {st.target.id: ast.unparse(st.annotation) for st in cls.body if isinstance(st, ast.AnnAssign) and isinstance(st.target, ast.Name)}
        for f in fields:
            if not f.startswith("_"):
                findings.append(("S-immut", "%s.%s" % (cname, f), "field is stored under a public attribute name"))
        # getter-only properties, no setter/deleter/__setattr__
        for st in cls.body:
            if isinstance(st, ast.FunctionDef):
                decos = [ast.unparse(d) for d in st.decorator_list]
                if any(d.endswith(".setter") or d.endswith(".deleter") for d in decos):
                    findings.append(("S-immut", "%s.%s" % (cname, st.name), "property has a %s" % decos))
                if st.name in ("__setattr__", "__delattr__", "__setitem__"):
                    findings.append(("S-immut", "%s.%s" % (cname, st.name), "class customises attribute assignment"))
        public = {}
        for st in cls.body:
            if isinstance(st, ast.FunctionDef) and "property" in [ast.unparse(d) for d in st.decorator_list]:
                body = no_doc(st.body)
                if len(body) == 1 and isinstance(body[0], ast.Return) and is_attr(body[0].value, "self", "_" + st.name):
                    public[st.name] = "_" + st.name
                else:
                    findings.append(("S-immut", "%s.%s" % (cname, st.name), "property is not a plain getter of its private field"))
        # who assigns the private fields
        for mname, fn in ms.items():
            for n in ast.walk(fn):
                if isinstance(n, ast.Attribute) and isinstance(n.ctx, ast.Store):
                    base = n.value.id if isinstance(n.value, ast.Name) else None
                    if base == "self" and mname != "__init__":
                        findings.append(("S-immut", "%s.%s" % (cname, mname), "assigns self.%s outside __init__" % n.attr))
                    elif base == "data":
                        findings.append(("S-immut", "%s.%s" % (cname, mname), "assigns data.%s: serialization mutates the object" % n.attr))
                    elif base == "result" and not (mname == "deserialize" and n.attr == "_byte_size"):
                        findings.append(("S-immut", "%s.%s" % (cname, mname), "assigns result.%s after construction" % n.attr))
        # arrays are copied with tuple(...)
        init = ms.get("__init__")
        if init is not None:
            params = {a.arg for a in init.args.kwonlyargs + init.args.args}
            for st in ast.walk(init):
                if isinstance(st, ast.Assign) and len(st.targets) == 1 and isinstance(st.targets[0], ast.Attribute) \
                        and isinstance(st.targets[0].value, ast.Name) and st.targets[0].value.id == "self":
                    fname = st.targets[0].attr
                    a = ann.get(fname, "")
                    if "tuple[" in a:
                        if not _is_tuple_copy(st.value, params):
                            findings.append(("S-immut", "%s.__init__" % cname, "array field %s is stored as %s, not as an own tuple copy"
                                             % (fname, ast.unparse(st.value))))
        ser = ms.get("serialize")
        if ser is not None:
            for n in ast.walk(ser):
                if isinstance(n, ast.Call) and isinstance(n.func, ast.Attribute) and isinstance(n.func.value, ast.Attribute) \
                        and isinstance(n.func.value.value, ast.Name) and n.func.value.value.id == "data" \
                        and n.func.attr in ("append", "extend", "clear", "pop", "sort", "reverse", "insert", "remove", "update"):
                    findings.append(("S-immut", "%s.serialize" % cname, "serialization mutates data.%s via %s()" % (n.func.value.attr, n.func.attr)))
    return findings


def _is_tuple_copy(v, params):
    """tuple(p), or a conditional/boolean form whose every non-None alternative is tuple(p)."""
    if isinstance(v, ast.Call) and isinstance(v.func, ast.Name) and v.func.id == "tuple" and len(v.args) == 1:
        return True
    if isinstance(v, ast.IfExp):
        alts = [v.body, v.orelse]
        return all(_is_tuple_copy(a, params) or (isinstance(a, ast.Constant) and a.value is None) for a in alts)
    return False
