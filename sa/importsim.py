"""Engine D: import-binding simulation.

Python's import semantics over a package tree, executed abstractly on module ASTs:
executing a module binds names in statement order; `from m import *` copies `__all__`
when statically present, otherwise every name of m's namespace not starting with '_'
(sub-module attributes included); finishing the import of p.m binds `m` in p; a module
being initialised is visible, partially filled, to importers on a cycle.
Sources come from a provider: static files of /repo/src plus synthetic generated modules.
"""
import ast

from .core import AnalysisError


class Mod:
    def __init__(self, name, is_pkg):
        self.name, self.is_pkg = name, is_pkg
        self.ns = {}
        self.done = False

    def __repr__(self):
        return "<module %s>" % self.name


class Def:
    """An object created by a definition/assignment in a module: identity = (module, name)."""

    def __init__(self, mod, name):
        self.mod, self.name = mod, name

    def __repr__(self):
        return "<%s.%s>" % (self.mod, self.name)


class Ext:
    """A name imported from outside the simulated tree (stdlib)."""

    def __init__(self, q):
        self.q = q

    def __repr__(self):
        return "<ext %s>" % self.q

    def __eq__(self, o):
        return isinstance(o, Ext) and o.q == self.q

    def __hash__(self):
        return hash(self.q)


class SimImportError(Exception):
    pass


class World:
    def __init__(self, provider, root="eolib"):
        self.provider = provider  # name -> ('pkg'|'mod', source) or None
        self.root = root
        self.mods = {}
        self.order = []

    def inside(self, name):
        return name == self.root or name.startswith(self.root + ".")

    def import_module(self, name):
        if not self.inside(name):
            return None
        parts = name.split(".")
        for i in range(1, len(parts) + 1):
            n = ".".join(parts[:i])
            if n in self.mods:
                continue
            f = self.provider(n)
            if f is None:
                raise SimImportError("No module named %r" % n)
            kind, src = f
            m = Mod(n, kind == "pkg")
            self.mods[n] = m
            self.order.append(n)
            try:
                self.exec_module(m, src)
            except SimImportError:
                del self.mods[n]  # a failed import is removed from sys.modules
                raise
            m.done = True
            if i > 1:
                self.mods[".".join(parts[: i - 1])].ns[parts[i - 1]] = m
        return self.mods[name]

    @staticmethod
    def resolve_rel(m, level, module):
        if level == 0:
            return module
        base = m.name.split(".") if m.is_pkg else m.name.split(".")[:-1]
        if level - 1 > len(base) - 1 and level > 1 and len(base) - (level - 1) < 1:
            raise SimImportError("attempted relative import beyond top-level package in %s" % m.name)
        base = base[: len(base) - (level - 1)]
        return ".".join(base + ([module] if module else []))

    def exec_module(self, m, src):
        try:
            tree = ast.parse(src)
        except SyntaxError as e:
            raise AnalysisError("cannot parse module %s: %s" % (m.name, e))
        for st in tree.body:
            if isinstance(st, ast.ImportFrom):
                target = self.resolve_rel(m, st.level, st.module)
                tm = self.import_module(target)
                for a in st.names:
                    if tm is None:
                        if a.name == "*":
                            raise AnalysisError("star import from outside the tree in %s" % m.name)
                        m.ns[a.asname or a.name] = Ext(target + "." + a.name)
                        continue
                    if a.name == "*":
                        allv = tm.ns.get("__all__")
                        if isinstance(allv, list):
                            names = allv
                            for k in names:
                                if k not in tm.ns and self.provider(tm.name + "." + k) is not None:
                                    self.import_module(tm.name + "." + k)
                        else:
                            names = [k for k in tm.ns if not k.startswith("_")]
                        for k in names:
                            if k in tm.ns:
                                m.ns[k] = tm.ns[k]
                            else:
                                raise SimImportError("module %s has no attribute %s (from __all__)" % (tm.name, k))
                    else:
                        if a.name not in tm.ns:
                            if self.provider(tm.name + "." + a.name) is not None:
                                self.import_module(tm.name + "." + a.name)
                        if a.name in tm.ns:
                            m.ns[a.asname or a.name] = tm.ns[a.name]
                        elif (tm.name + "." + a.name) in self.mods:
                            m.ns[a.asname or a.name] = self.mods[tm.name + "." + a.name]
                        else:
                            raise SimImportError("cannot import name %r from %s%s (importing %s)" % (
                                a.name, "partially initialized module " if not tm.done else "", tm.name, m.name))
            elif isinstance(st, ast.Import):
                for a in st.names:
                    tm = self.import_module(a.name)
                    top = a.name.split(".")[0]
                    if tm is None:
                        m.ns[a.asname or top] = Ext(a.name if a.asname else top)
                    else:
                        m.ns[a.asname or top] = tm if a.asname else self.mods[top]
            elif isinstance(st, (ast.ClassDef, ast.FunctionDef, ast.AsyncFunctionDef)):
                m.ns[st.name] = Def(m.name, st.name)
            elif isinstance(st, ast.Assign):
                for t in st.targets:
                    for n in ast.walk(t):
                        if isinstance(n, ast.Name):
                            if n.id == "__all__" and isinstance(st.value, (ast.List, ast.Tuple)) and \
                                    all(isinstance(e, ast.Constant) and isinstance(e.value, str) for e in st.value.elts):
                                m.ns["__all__"] = [e.value for e in st.value.elts]
                            elif n.id == "__all__":
                                m.ns["__all__"] = _filtered_names(st.value, m)
                            else:
                                m.ns[n.id] = Def(m.name, n.id)
            elif isinstance(st, ast.AnnAssign):
                if isinstance(st.target, ast.Name) and st.value is not None:
                    m.ns[st.target.id] = Def(m.name, st.target.id)
            elif isinstance(st, ast.Delete):
                for t in st.targets:
                    if not isinstance(t, ast.Name):
                        raise AnalysisError("module %s deletes a non-name at top level" % m.name)
                    if t.id not in m.ns:
                        raise SimImportError("name %r is not defined (del in %s)" % (t.id, m.name))
                    del m.ns[t.id]
            elif isinstance(st, ast.Expr) and isinstance(st.value, ast.Constant):
                pass  # docstring
            elif isinstance(st, ast.AugAssign) and isinstance(st.target, ast.Name) and st.target.id == "__all__":
                raise AnalysisError("__all__ of %s is built dynamically" % m.name)
            elif isinstance(st, (ast.If, ast.Try, ast.With, ast.For, ast.While)):
                # control flow at module level may bind names conditionally: only tolerated when it binds none
                for n in ast.walk(st):
                    if isinstance(n, (ast.Import, ast.ImportFrom, ast.FunctionDef, ast.ClassDef)) or \
                            (isinstance(n, ast.Name) and isinstance(n.ctx, ast.Store)):
                        raise AnalysisError("module %s binds names under control flow at top level (line %d)" % (m.name, st.lineno))
            else:
                pass

    def attr_path(self, dotted):
        """Resolve a.b.c by attribute access from the root module; returns the object or None."""
        parts = dotted.split(".")
        cur = self.mods.get(parts[0])
        for p in parts[1:]:
            if not isinstance(cur, Mod):
                return None
            cur = cur.ns.get(p)
            if cur is None:
                return None
        return cur


def _filtered_names(value, m):
    """__all__ = [n for n in dir() if <test on n>]  (also globals() / list(...) / sorted(...) around it): the namespace at
    this point filtered by a test made of startswith/endswith, ==, !=, in, not in on literals, and/or/not."""
    def unwrap(e):
        while isinstance(e, ast.Call) and isinstance(e.func, ast.Name) and e.func.id in ("list", "sorted", "tuple") and len(e.args) == 1:
            e = e.args[0]
        return e
    value = unwrap(value)
    if not (isinstance(value, ast.ListComp) and len(value.generators) == 1 and isinstance(value.generators[0].target, ast.Name)
            and isinstance(value.elt, ast.Name) and value.elt.id == value.generators[0].target.id and not value.generators[0].is_async):
        raise AnalysisError("__all__ of %s is not a static list of strings" % m.name)
    g = value.generators[0]
    src = unwrap(g.iter)
    if not (isinstance(src, ast.Call) and isinstance(src.func, ast.Name) and src.func.id in ("dir", "globals", "vars", "locals") and not src.args):
        raise AnalysisError("__all__ of %s is computed from %s" % (m.name, ast.unparse(g.iter)))
    var = g.target.id

    def lit(e):
        if isinstance(e, ast.Constant) and isinstance(e.value, str):
            return e.value
        if isinstance(e, (ast.Tuple, ast.List, ast.Set)) and all(isinstance(x, ast.Constant) and isinstance(x.value, str) for x in e.elts):
            return [x.value for x in e.elts]
        raise AnalysisError("__all__ of %s: test on %s" % (m.name, ast.unparse(e)))

    def ev(t, name):
        if isinstance(t, ast.BoolOp):
            vals = [ev(v, name) for v in t.values]
            return all(vals) if isinstance(t.op, ast.And) else any(vals)
        if isinstance(t, ast.UnaryOp) and isinstance(t.op, ast.Not):
            return not ev(t.operand, name)
        if isinstance(t, ast.Compare) and len(t.ops) == 1 and isinstance(t.left, ast.Name) and t.left.id == var:
            r = lit(t.comparators[0])
            op = t.ops[0]
            if isinstance(op, ast.Eq):
                return name == r
            if isinstance(op, ast.NotEq):
                return name != r
            if isinstance(op, ast.In):
                return name in r
            if isinstance(op, ast.NotIn):
                return name not in r
        if isinstance(t, ast.Call) and isinstance(t.func, ast.Attribute) and isinstance(t.func.value, ast.Name) and t.func.value.id == var \
                and t.func.attr in ("startswith", "endswith") and len(t.args) == 1:
            r = lit(t.args[0])
            r = tuple(r) if isinstance(r, list) else r
            return getattr(name, t.func.attr)(r)
        raise AnalysisError("__all__ of %s: test %s" % (m.name, ast.unparse(t)))
    names = [k for k in m.ns if isinstance(k, str)]
    return sorted(n for n in names if all(ev(c, n) for c in g.ifs))

