"""Engine B, part 2: abstract interpreter for the integer subset of the runtime library.

Interprets function bodies from their syntax trees (the repository is never imported)
over the domain of `affine.py`.  Anything outside the supported subset raises
AnalysisError (exit 2), never a verdict.
"""
import ast

from . import affine as B
from .affine import Aff
from .core import AnalysisError
from .index import resolve_relative


class PyRaise(Exception):
    """The interpreted code raised an exception."""

    def __init__(self, exc_name, node=None, msg=""):
        Exception.__init__(self, exc_name)
        self.exc_name = exc_name
        self.node = node
        self.msg = msg


class _Return(Exception):
    def __init__(self, v):
        self.v = v


class _Break(Exception):
    pass


class _Continue(Exception):
    pass


class TrueDiv:
    """x / M, legal only as the argument of int() (truncating division)."""

    def __init__(self, x, m):
        self.x, self.m = x, m


class FuncRef:
    def __init__(self, mod, node, cls=None):
        self.mod, self.node, self.cls = mod, node, cls
        decos = [ast.unparse(d) for d in node.decorator_list]
        self.static = "staticmethod" in decos
        self.classm = "classmethod" in decos
        self.prop = any(d in ("property", "abstractproperty") for d in decos)
        self.setter = next((d[:-7] for d in decos if d.endswith(".setter")), None)


class ClassRef:
    def __init__(self, mod, node):
        self.mod, self.node = mod, node

    @property
    def name(self):
        return self.node.name


class Bound:
    def __init__(self, fn, self_):
        self.fn, self.self_ = fn, self_


class Obj:
    def __init__(self, cls):
        self.cls = cls
        self.d = {}

    def __repr__(self):
        return "<%s %r>" % (self.cls.name, self.d)


class Native:
    def __init__(self, fn, name="native"):
        self.fn, self.name = fn, name


class ModRef:
    def __init__(self, name):
        self.name = name


class Opaque:
    """A value the analysis does not look into (message strings and the like)."""

    def __init__(self, what):
        self.what = what

    def __repr__(self):
        return "<opaque %s>" % self.what


class FStr(Opaque):
    """An f-string kept as its parts: [("text", str) | ("value", abstract value)]."""

    def __init__(self, parts):
        Opaque.__init__(self, "f-string")
        self.parts = parts


class SuperProxy:
    def __init__(self, cls, self_):
        self.cls, self.self_ = cls, self_


EXC_NAMES = {"ValueError", "RuntimeError", "TypeError", "IndexError", "KeyError", "AssertionError",
             "NotImplementedError", "Exception", "OverflowError", "ZeroDivisionError"}


class NumEval:
    MAX_DEPTH = 12
    MAX_ITER = 8

    def __init__(self, index, natives=None, module_hooks=None):
        self.index = index
        self.natives = dict(natives or {})  # callee name -> python callable(ev, args, kwargs, node)
        self.module_hooks = dict(module_hooks or {})  # "random.randrange" -> callable
        self.depth = 0
        self.on_store_attr = None  # hook(obj, attr, value, node)
        self.on_call = None  # hook(funcref, args) -> override or NotImplemented

    # ------------------------------------------------------------ entry points
    def call_qual(self, qual, args, kwargs=None):
        m, fn, cls = self.index.function(qual)
        cr = ClassRef(m, cls) if cls is not None else None
        return self.call(FuncRef(m, fn, cr), list(args), dict(kwargs or {}))

    def instantiate(self, qual, args, kwargs=None):
        m, cls = self.index.klass(qual)
        return self.call(ClassRef(m, cls), list(args), dict(kwargs or {}))

    # ------------------------------------------------------------ name resolution
    def lookup_global(self, mod, name, node=None):
        if name in mod.functions:
            return FuncRef(mod, mod.functions[name])
        if name in mod.classes:
            return ClassRef(mod, mod.classes[name])
        if name in mod.consts:
            return mod.consts[name]
        for st in mod.tree.body:
            # module-level values that are not foldable constants (tuples, ranges, tables)
            tgt = None
            if isinstance(st, ast.Assign) and len(st.targets) == 1 and isinstance(st.targets[0], ast.Name):
                tgt, val = st.targets[0].id, st.value
            elif isinstance(st, ast.AnnAssign) and isinstance(st.target, ast.Name) and st.value is not None:
                tgt, val = st.target.id, st.value
            if tgt == name:
                return Frame(self, mod, {}).expr(val)
        if name in mod.imports:
            target, orig = mod.imports[name]
            if orig is None:
                return ModRef(target)
            if target and self.index.has_module(target):
                return self.lookup_global(self.index.module(target), orig, node)
            if target and self.index.has_module(target + "." + orig):
                return ModRef(target + "." + orig)
            return ModRef(target + "." + orig) if target else ModRef(orig)
        if name in self.natives:
            return Native(self.natives[name], name)
        if name in BUILTINS:
            return Native(BUILTINS[name], name)
        if name in EXC_NAMES:
            return ExcRef(name)
        raise AnalysisError("engine B: unresolved name %s in %s" % (name, mod.name))

    def class_lookup(self, cls, attr):
        """MRO lookup over classes defined in the indexed tree."""
        for c in self.mro(cls):
            for st in c.node.body:
                if isinstance(st, ast.FunctionDef) and st.name == attr:
                    yield FuncRef(c.mod, st, c)
                elif isinstance(st, ast.Assign):
                    for t in st.targets:
                        if isinstance(t, ast.Name) and t.id == attr:
                            yield ("classattr", c, st.value)

    def mro(self, cls):
        out = [cls]
        for b in cls.node.bases:
            if isinstance(b, ast.Name):
                try:
                    v = self.lookup_global(cls.mod, b.id)
                except AnalysisError:
                    continue
                if isinstance(v, ClassRef):
                    for c in self.mro(v):
                        if all(c.node is not o.node for o in out):
                            out.append(c)
        return out

    def find_method(self, cls, attr, kind=None):
        for f in self.class_lookup(cls, attr):
            if isinstance(f, FuncRef):
                if kind == "setter" and not f.setter:
                    continue
                if kind == "getter" and f.setter:
                    continue
                return f
        return None

    # ------------------------------------------------------------ calls
    def call(self, f, args, kwargs, node=None):
        if isinstance(f, Bound):
            return self.call(f.fn, [f.self_] + list(args), kwargs, node)
        if isinstance(f, Native):
            return f.fn(self, args, kwargs, node)
        if isinstance(f, ExcRef):
            return ExcVal(f.name, args)
        if isinstance(f, ClassRef):
            o = Obj(f)
            init = self.find_method(f, "__init__")
            if init is not None:
                self.call(init, [o] + list(args), kwargs, node)
            return o
        if isinstance(f, FuncRef):
            if self.on_call is not None:
                r = self.on_call(f, args, kwargs)
                if r is not NotImplemented:
                    return r
            self.depth += 1
            if self.depth > self.MAX_DEPTH:
                raise AnalysisError("engine B: call depth exceeded at %s" % f.node.name)
            try:
                env = self.bind(f, args, kwargs)
                fr = Frame(self, f.mod, env, f.cls)
                try:
                    fr.block(f.node.body)
                except _Return as r:
                    return r.v
                return None
            finally:
                self.depth -= 1
        raise AnalysisError("engine B: cannot call %r" % (f,))

    def bind(self, f, args, kwargs):
        a = f.node.args
        env = {}
        params = [x.arg for x in a.posonlyargs + a.args]
        nd = len(a.defaults)
        kwargs = dict(kwargs)
        tmp = Frame(self, f.mod, {}, f.cls)
        if len(args) > len(params) and not a.vararg:
            raise AnalysisError("engine B: too many arguments for %s" % f.node.name)
        for i, p in enumerate(params):
            if i < len(args):
                env[p] = args[i]
            elif p in kwargs:
                env[p] = kwargs.pop(p)
            else:
                di = i - (len(params) - nd)
                if di < 0:
                    raise AnalysisError("engine B: missing argument %s for %s" % (p, f.node.name))
                env[p] = tmp.expr(a.defaults[di])
        for i, p in enumerate(a.kwonlyargs):
            if p.arg in kwargs:
                env[p.arg] = kwargs.pop(p.arg)
            elif a.kw_defaults[i] is not None:
                env[p.arg] = tmp.expr(a.kw_defaults[i])
            else:
                raise AnalysisError("engine B: missing keyword argument %s" % p.arg)
        if kwargs:
            raise AnalysisError("engine B: unexpected keyword arguments %s" % sorted(kwargs))
        return env


class ExcRef:
    def __init__(self, name):
        self.name = name


class ExcVal:
    def __init__(self, name, args):
        self.name, self.args = name, args


class Frame:
    def __init__(self, ev, mod, env, cls=None):
        self.ev, self.mod, self.env, self.cls = ev, mod, env, cls

    # ------------------------------------------------------------ statements
    def block(self, body):
        for st in body:
            self.stmt(st)

    def stmt(self, st):
        m = getattr(self, "s_" + type(st).__name__, None)
        if m is None:
            raise AnalysisError("engine B: unsupported statement %s at %s:%d"
                                % (type(st).__name__, self.mod.name, st.lineno))
        m(st)

    def s_Expr(self, st):
        if isinstance(st.value, ast.Constant):
            return
        self.expr(st.value)

    def s_Pass(self, st):
        pass

    def s_Assign(self, st):
        v = self.expr(st.value)
        for t in st.targets:
            self.assign(t, v)

    def s_AnnAssign(self, st):
        if st.value is not None:
            self.assign(st.target, self.expr(st.value))

    def s_AugAssign(self, st):
        cur = self.expr(_as_load(st.target))
        self.assign(st.target, self.binop(st.op, cur, self.expr(st.value), st))

    def assign(self, t, v):
        if isinstance(t, ast.Name):
            self.env[t.id] = v
        elif isinstance(t, ast.Attribute):
            o = self.expr(t.value)
            if isinstance(o, Obj):
                setter = self.ev.find_method(o.cls, t.attr, "setter")
                if setter is not None:
                    self.ev.call(setter, [o, v], {}, t)
                    return
                if self.ev.on_store_attr is not None:
                    self.ev.on_store_attr(o, t.attr, v, t)
                o.d[t.attr] = v
            elif hasattr(o, "setattr"):
                o.setattr(self, t.attr, v, t)
            else:
                raise AnalysisError("engine B: attribute store on %r" % (o,))
        elif isinstance(t, ast.Subscript):
            o = self.expr(t.value)
            if isinstance(t.slice, ast.Slice):
                lo = self.expr(t.slice.lower) if t.slice.lower else None
                hi = self.expr(t.slice.upper) if t.slice.upper else None
                if hasattr(o, "store_slice"):
                    o.store_slice(self, lo, hi, v, t)
                    return
                if isinstance(o, list) and all(x is None or isinstance(x, int) for x in (lo, hi)) and isinstance(v, list):
                    o[lo:hi] = v
                    return
                raise AnalysisError("engine B: unsupported slice store")
            k = self.expr(t.slice)
            if isinstance(o, dict):
                o[_dkey(k)] = v
                return
            if hasattr(o, "store_index"):
                o.store_index(self, k, v, t)
            elif isinstance(o, list) and isinstance(k, int):
                if not -len(o) <= k < len(o):
                    raise PyRaise("IndexError", t)
                o[k] = v
            else:
                raise AnalysisError("engine B: unsupported subscript store on %r[%r]" % (o, k))
        elif isinstance(t, (ast.Tuple, ast.List)):
            vs = list(v)
            if len(vs) != len(t.elts):
                raise AnalysisError("engine B: unpack arity")
            for tt, vv in zip(t.elts, vs):
                self.assign(tt, vv)
        else:
            raise AnalysisError("engine B: unsupported assignment target")

    def s_If(self, st):
        if self.truth(self.expr(st.test), st.test):
            self.block(st.body)
        else:
            self.block(st.orelse)

    def s_For(self, st):
        it = self.expr(st.iter)
        if hasattr(it, "abstract_iter"):
            it.abstract_iter(self, st)
            return
        if isinstance(it, range):
            it = list(it)
        if not isinstance(it, (list, tuple)):
            raise AnalysisError("engine B: cannot iterate %r at %s:%d" % (it, self.mod.name, st.lineno))
        if len(it) > 4096:
            raise AnalysisError("engine B: loop too long to unroll")
        broke = False
        for v in list(it):
            self.assign(st.target, v)
            try:
                self.block(st.body)
            except _Break:
                broke = True
                break
            except _Continue:
                continue
        if not broke:
            self.block(st.orelse)

    def _while_test(self, st):
        before = len(B.cur().log)
        r = self.truth(self.expr(st.test), st.test)
        if len(B.cur().log) > before and getattr(self.ev, "abs_bufs", None):
            # a trip count that depends on the symbolic length cannot be unrolled; the per-element loop forms
            # (range(len(buf)), enumerate(buf), for x in buf) are the ones this domain summarises
            raise AnalysisError("engine B: while loop with a symbolic trip count over an abstract buffer at %s:%d"
                                % (self.mod.name, st.lineno))
        return r

    def s_While(self, st):
        hook = getattr(self.ev, "while_hook", None)
        if hook is not None and hook(self, st):
            return
        for n in ast.walk(st.test):
            if isinstance(n, ast.Name) and type(self.env.get(n.id)).__name__ == "FindResult":
                from .absbuf import find_loop
                find_loop(self, st, n.id)
                return
        if getattr(self.ev, "abs_bufs", None):
            from .absbuf import cursor_loop
            if cursor_loop(self, st):
                return
        n = 0
        while self._while_test(st):
            n += 1
            if n > self.ev.MAX_ITER:
                raise B.Truncated("while loop at %s:%d not bounded by the abstract state after %d iterations"
                                  % (self.mod.name, st.lineno, self.ev.MAX_ITER))
            try:
                self.block(st.body)
            except _Break:
                return
            except _Continue:
                continue
        self.block(st.orelse)

    def s_Return(self, st):
        raise _Return(self.expr(st.value) if st.value is not None else None)

    def s_Break(self, st):
        raise _Break()

    def s_Continue(self, st):
        raise _Continue()

    def s_Raise(self, st):
        if st.exc is None:
            raise AnalysisError("engine B: bare raise")
        e = self.expr(st.exc)
        name = e.name if isinstance(e, (ExcRef, ExcVal)) else "Exception"
        B.cur().events.append(("raise", name, st.lineno))
        raise PyRaise(name, st)

    def s_Try(self, st):
        try:
            try:
                self.block(st.body)
            except PyRaise as pr:
                for h in st.handlers:
                    names = []
                    if h.type is None:
                        names = None
                    elif isinstance(h.type, ast.Tuple):
                        names = [ast.unparse(x) for x in h.type.elts]
                    else:
                        names = [ast.unparse(h.type)]
                    if names is None or pr.exc_name in names or "Exception" in names:
                        if h.name:
                            self.env[h.name] = ExcVal(pr.exc_name, [])
                        self.block(h.body)
                        break
                else:
                    raise
            else:
                self.block(st.orelse)
        finally:
            self.block(st.finalbody)

    def s_Assert(self, st):
        if not self.truth(self.expr(st.test), st.test):
            raise PyRaise("AssertionError", st)

    # ------------------------------------------------------------ expressions
    def expr(self, e):
        m = getattr(self, "e_" + type(e).__name__, None)
        if m is None:
            raise AnalysisError("engine B: unsupported expression %s at %s:%d"
                                % (type(e).__name__, self.mod.name, getattr(e, "lineno", 0)))
        return m(e)

    def e_Constant(self, e):
        if isinstance(e.value, bytes):
            return list(e.value)  # byte strings are lists of ints in this interpreter
        return e.value

    def e_Name(self, e):
        if e.id in self.env:
            return self.env[e.id]
        return self.ev.lookup_global(self.mod, e.id, e)

    def e_JoinedStr(self, e):
        parts = []
        for v in e.values:
            if isinstance(v, ast.FormattedValue):
                val = self.expr(v.value)
                spec = v.format_spec
                if isinstance(val, Aff) and type(val) is not Aff and v.conversion == -1 and isinstance(spec, ast.JoinedStr) \
                        and len(spec.values) == 1 and isinstance(spec.values[0], ast.Constant) and str(spec.values[0].value).endswith("d"):
                    val = Aff(val.c, val.t)  # the "d" presentation type prints the decimal number whatever the object's own __str__
                parts.append(("value", val))
            elif isinstance(v, ast.Constant):
                parts.append(("text", v.value))
        if getattr(self.ev, "keep_fstrings", False):
            return FStr(parts)
        return Opaque("f-string")

    def e_Dict(self, e):
        out = {}
        for k, v in zip(e.keys, e.values):
            if k is None:
                raise AnalysisError("engine B: dict unpacking")
            out[_dkey(self.expr(k))] = self.expr(v)
        return out

    def e_Set(self, e):
        return [self.expr(x) for x in e.elts]

    def _elts(self, elts):
        out = []
        for x in elts:
            if isinstance(x, ast.Starred):
                v = self.expr(x.value)
                if isinstance(v, range):
                    v = list(v)
                if not isinstance(v, (list, tuple)):
                    raise AnalysisError("engine B: * of %r at %s:%d" % (v, self.mod.name, getattr(x, "lineno", 0)))
                out.extend(v)
            else:
                out.append(self.expr(x))
        return out

    def e_List(self, e):
        return self._elts(e.elts)

    def e_Tuple(self, e):
        return tuple(self._elts(e.elts))

    def _comp(self, gens, fn):
        def rec(i):
            if i == len(gens):
                fn()
                return
            g = gens[i]
            it = self.expr(g.iter)
            if isinstance(it, range):
                it = list(it)
            if not isinstance(it, (list, tuple)):
                raise AnalysisError("engine B: comprehension over %r" % (it,))
            for v in list(it):
                self.assign(g.target, v)
                if all(self.truth(self.expr(c), c) for c in g.ifs):
                    rec(i + 1)
        saved = dict(self.env)
        try:
            rec(0)
        finally:
            # comprehension variables do not leak
            for k in list(self.env):
                if k not in saved:
                    del self.env[k]
            self.env.update(saved)

    def e_ListComp(self, e):
        out = []
        self._comp(e.generators, lambda: out.append(self.expr(e.elt)))
        return out

    e_GeneratorExp = e_ListComp
    e_SetComp = e_ListComp

    def e_IfExp(self, e):
        return self.expr(e.body) if self.truth(self.expr(e.test), e.test) else self.expr(e.orelse)

    def e_BoolOp(self, e):
        if isinstance(e.op, ast.And):
            v = True
            for x in e.values:
                v = self.expr(x)
                if not self.truth(v, x):
                    return v
            return v
        v = False
        for x in e.values:
            v = self.expr(x)
            if self.truth(v, x):
                return v
        return v

    def e_UnaryOp(self, e):
        v = self.expr(e.operand)
        if isinstance(e.op, ast.Not):
            return not self.truth(v, e.operand)
        if isinstance(e.op, ast.USub):
            if isinstance(v, int):
                return -v
            return -Aff.of(v)
        if isinstance(e.op, ast.UAdd):
            return v
        raise AnalysisError("engine B: unsupported unary operator")

    def e_BinOp(self, e):
        return self.binop(e.op, self.expr(e.left), self.expr(e.right), e)

    def binop(self, op, a, b, node):
        if isinstance(a, bool):
            a = int(a)
        if isinstance(b, bool):
            b = int(b)
        if isinstance(a, list) and isinstance(op, ast.Mult) and isinstance(b, int):
            return a * b
        if isinstance(a, list) and isinstance(b, list) and isinstance(op, ast.Add):
            return a + b
        if isinstance(a, list) and isinstance(op, ast.Mult):
            if hasattr(self.ev, "list_times"):
                return self.ev.list_times(self, a, b, node)
        if isinstance(op, ast.Add) and hasattr(self.ev, "list_times") and (hasattr(a, "length") or hasattr(b, "length")):
            from .segbuf import SegBuf
            return SegBuf(SegBuf.segments_of(a) + SegBuf.segments_of(b), "concatenation")
        if getattr(self.ev, "keep_fstrings", False):
            if isinstance(op, ast.Mod) and isinstance(a, str):
                return _percent_format(a, b)
            if isinstance(op, ast.Add) and isinstance(a, (str, FStr)) and isinstance(b, (str, FStr)):
                return FStr(_text_parts(a) + _text_parts(b))
        if isinstance(a, (str, Opaque)) or isinstance(b, (str, Opaque)):
            return Opaque("string-expr")
        if isinstance(a, int) and isinstance(b, int):
            try:
                if isinstance(op, ast.Add):
                    return a + b
                if isinstance(op, ast.Sub):
                    return a - b
                if isinstance(op, ast.Mult):
                    return a * b
                if isinstance(op, ast.FloorDiv):
                    return a // b
                if isinstance(op, ast.Mod):
                    return a % b
                if isinstance(op, ast.BitAnd):
                    return a & b
                if isinstance(op, ast.BitXor):
                    return a ^ b
                if isinstance(op, ast.BitOr):
                    return a | b
                if isinstance(op, ast.Pow) and 0 <= b < 64:
                    return a ** b
                if isinstance(op, ast.LShift) and 0 <= b < 64:
                    return a << b
                if isinstance(op, ast.RShift) and 0 <= b < 64:
                    return a >> b
            except ZeroDivisionError:
                raise PyRaise("ZeroDivisionError", node)
            if isinstance(op, ast.Div):
                return TrueDiv(Aff(a), b)
        if not isinstance(a, (int, Aff)) or not isinstance(b, (int, Aff)):
            raise AnalysisError("engine B: unsupported operands for %s: %r, %r at %s:%d"
                                % (type(op).__name__, a, b, self.mod.name, getattr(node, "lineno", 0)))
        if isinstance(op, ast.Add):
            return Aff.of(a) + Aff.of(b)
        if isinstance(op, ast.Sub):
            return Aff.of(a) - Aff.of(b)
        if isinstance(op, ast.Mult):
            return B.mul(Aff.of(a), Aff.of(b))
        if isinstance(op, (ast.FloorDiv, ast.Mod, ast.Div)):
            bb = B.norm(Aff.of(b))
            if bb.is_const():
                m = bb.c
                if m.denominator != 1:
                    raise AnalysisError("engine B: non-integer divisor")
                m = int(m)
                if m == 0:
                    raise PyRaise("ZeroDivisionError", node)
                if isinstance(op, ast.Div):
                    if m < 0:
                        raise AnalysisError("engine B: negative divisor")
                    return TrueDiv(Aff.of(a), m)
                if m < 0:
                    raise AnalysisError("engine B: negative divisor")
                q, r = B.divmod_const(Aff.of(a), m)
                return q if isinstance(op, ast.FloorDiv) else r
            if isinstance(op, ast.Mod):
                lo, _ = B.bounds(bb)
                if lo is None or lo < 1:
                    # a modulus that may be zero or negative: fork on positivity
                    if not B.decide_ge0(bb - 1, "modulus>0 at line %d" % getattr(node, "lineno", 0)):
                        if B.decide_eq0(bb, "modulus==0"):
                            raise PyRaise("ZeroDivisionError", node)
                        raise AnalysisError("engine B: negative symbolic modulus")
                return B.mod_sym(Aff.of(a), Aff.of(b))
            if isinstance(op, ast.FloorDiv):
                lo, _ = B.bounds(bb)
                if lo is None or lo < 1:
                    if not B.decide_ge0(bb - 1, "divisor>0 at line %d" % getattr(node, "lineno", 0)):
                        if B.decide_eq0(bb, "divisor==0"):
                            raise PyRaise("ZeroDivisionError", node)
                        raise AnalysisError("engine B: negative symbolic divisor")
                return B.floordiv_sym(Aff.of(a), Aff.of(b), "//@%d" % getattr(node, "lineno", 0))
            raise AnalysisError("engine B: true division by a symbolic value")
        if isinstance(op, ast.BitAnd):
            if isinstance(a, int):
                a, b = b, a
            return B.bit_and(a, b)
        if isinstance(op, ast.BitXor):
            if isinstance(a, int):
                a, b = b, a
            return B.bit_xor(a, b)
        raise AnalysisError("engine B: unsupported operator %s" % type(op).__name__)

    def e_Compare(self, e):
        left = self.expr(e.left)
        for op, r in zip(e.ops, e.comparators):
            right = self.expr(r)
            if not self.compare(op, left, right, e):
                return False
            left = right
        return True

    def compare(self, op, a, b, node):
        lab = "%s@%d" % (_short(node), getattr(node, "lineno", 0))
        if isinstance(op, (ast.Is, ast.IsNot)):
            for x, y in ((a, b), (b, a)):
                if hasattr(x, "abstract_is"):
                    r = x.abstract_is(self, y, node)
                    return r if isinstance(op, ast.Is) else not r
            return (a is b) if isinstance(op, ast.Is) else (a is not b)
        if isinstance(op, (ast.In, ast.NotIn)):
            r = self.member(a, b, node)
            return r if isinstance(op, ast.In) else not r
        if isinstance(a, bool):
            a = int(a)
        if isinstance(b, bool):
            b = int(b)
        if hasattr(a, "compare"):
            return a.compare(self, op, b, node)
        if isinstance(a, (int, Aff)) and isinstance(b, (int, Aff)):
            if isinstance(a, int) and isinstance(b, int):
                return {ast.Eq: a == b, ast.NotEq: a != b, ast.Lt: a < b, ast.Gt: a > b,
                        ast.LtE: a <= b, ast.GtE: a >= b}[type(op)]
            a, b = Aff.of(a), Aff.of(b)
            if isinstance(op, ast.GtE):
                return B.decide_ge0(a - b, lab)
            if isinstance(op, ast.Gt):
                return B.decide_ge0(a - b - 1, lab)
            if isinstance(op, ast.LtE):
                return B.decide_ge0(b - a, lab)
            if isinstance(op, ast.Lt):
                return B.decide_ge0(b - a - 1, lab)
            if isinstance(op, ast.Eq):
                return B.decide_eq0(a - b, lab)
            if isinstance(op, ast.NotEq):
                return not B.decide_eq0(a - b, lab)
        if isinstance(op, (ast.Eq, ast.NotEq)) and (a is None or b is None):
            r = a is b
            return r if isinstance(op, ast.Eq) else not r
        raise AnalysisError("engine B: unsupported comparison %s %r %r at %s:%d"
                            % (type(op).__name__, a, b, self.mod.name, getattr(node, "lineno", 0)))

    def member(self, a, b, node):
        if isinstance(b, range):
            if b.step != 1:
                raise AnalysisError("engine B: membership in a stepped range")
            if isinstance(a, int):
                return a in b
            lab = "%s@%d" % (_short(node), getattr(node, "lineno", 0))
            return B.decide_ge0(Aff.of(a) - b.start, lab + " [lo]") and B.decide_ge0(Aff(b.stop - 1) - Aff.of(a), lab + " [hi]")
        if isinstance(b, dict):
            return _dkey(a) in b
        if isinstance(b, (list, tuple)):
            for x in b:
                if self.compare(ast.Eq(), a, x, node):
                    return True
            return False
        if hasattr(b, "contains"):
            return b.contains(self, a, node)
        raise AnalysisError("engine B: membership test in %r" % (b,))

    def truth(self, v, node=None):
        if isinstance(v, bool):
            return v
        if v is None:
            return False
        if isinstance(v, int):
            return v != 0
        if isinstance(v, Aff):
            return not B.decide_eq0(v, "truth(%s)" % (_short(node) if node is not None else "?"))
        if isinstance(v, (list, tuple, str, dict)):
            return len(v) > 0
        if hasattr(v, "truth"):
            return v.truth(self, node)
        if isinstance(v, Obj):
            return True
        raise AnalysisError("engine B: truth value of %r" % (v,))

    def e_Subscript(self, e):
        o = self.expr(e.value)
        if isinstance(e.slice, ast.Slice):
            lo = self.expr(e.slice.lower) if e.slice.lower else None
            hi = self.expr(e.slice.upper) if e.slice.upper else None
            if e.slice.step is not None:
                raise AnalysisError("engine B: slice step")
            if hasattr(o, "load_slice"):
                return o.load_slice(self, lo, hi, e)
            if isinstance(o, (list, tuple)) and all(x is None or isinstance(x, int) for x in (lo, hi)):
                return o[lo:hi]
            if isinstance(o, list) and o and lo in (None, 0) and isinstance(hi, Aff) and hasattr(self.ev, "list_times") \
                    and all(isinstance(x, int) and x == o[0] for x in o):
                # a block of one repeated byte cut at a symbolic length: Python clamps silently at both ends
                if not B.decide_ge0(hi, "slice bound >= 0"):
                    if not B.decide_ge0(hi + len(o), "slice bound >= -len"):
                        return []
                    hi = hi + len(o)
                if B.decide_ge0(Aff(len(o)) - hi, "slice bound <= len(block)"):
                    return self.ev.list_times(self, [o[0]], hi, e)
                return list(o)
            raise AnalysisError("engine B: unsupported slice %s[%r:%r]" % ("<%d-element list>" % len(o) if isinstance(o, (list, tuple)) else repr(o), lo, hi))
        k = self.expr(e.slice)
        if isinstance(o, dict):
            kk = _dkey(k)
            if kk not in o:
                raise PyRaise("KeyError", e)
            return o[kk]
        if hasattr(o, "load_index"):
            return o.load_index(self, k, e)
        if isinstance(o, (list, tuple)):
            if isinstance(k, Aff):
                kk = B.norm(k)
                if kk.is_const():
                    k = int(kk.c)
            if isinstance(k, int):
                if not -len(o) <= k < len(o):
                    raise PyRaise("IndexError", e)
                return o[k]
        raise AnalysisError("engine B: unsupported subscript %r[%r]" % (o, k))

    def e_Attribute(self, e):
        o = self.expr(e.value)
        return self.getattr(o, e.attr, e)

    def getattr(self, o, attr, node=None):
        if attr == "__class__" and getattr(self.ev, "class_of", None) is not None:
            return self.ev.class_of(self, o, node)
        if isinstance(o, Obj):
            if attr in o.d:
                return o.d[attr]
            f = self.ev.find_method(o.cls, attr, "getter")
            if f is not None:
                if f.prop:
                    return self.ev.call(f, [o], {}, node)
                if f.static:
                    return f
                if f.classm:
                    return Bound(f, o.cls)
                return Bound(f, o)
            for x in self.ev.class_lookup(o.cls, attr):
                if isinstance(x, tuple):
                    return Frame(self.ev, x[1].mod, {}, x[1]).expr(x[2])
            raise PyRaise("AttributeError", node)
        if isinstance(o, ClassRef):
            f = self.ev.find_method(o, attr)
            if f is not None:
                if f.classm:
                    return Bound(f, o)
                return f
            for x in self.ev.class_lookup(o, attr):
                if isinstance(x, tuple):
                    return Frame(self.ev, x[1].mod, {}, x[1]).expr(x[2])
            raise AnalysisError("engine B: class attribute %s.%s" % (o.name, attr))
        if isinstance(o, SuperProxy):
            mro = self.ev.mro(o.self_.cls)
            idx = next(i for i, c in enumerate(mro) if c.node is o.cls.node)
            for c in mro[idx + 1:]:
                for st in c.node.body:
                    if isinstance(st, ast.FunctionDef) and st.name == attr:
                        return Bound(FuncRef(c.mod, st, c), o.self_)
            return Native(lambda ev, a, k, n: None, "object." + attr)
        if isinstance(o, ModRef):
            q = o.name + "." + attr
            if q in self.ev.module_hooks:
                return Native(self.ev.module_hooks[q], q)
            if self.ev.index.has_module(o.name):
                return self.ev.lookup_global(self.ev.index.module(o.name), attr, node)
            raise AnalysisError("engine B: unmodelled module attribute %s" % q)
        if isinstance(o, Native) and (o.name + "." + attr) in self.ev.natives:
            return Native(self.ev.natives[o.name + "." + attr], o.name + "." + attr)
        if isinstance(o, Native) and o.name in ("bytes", "bytearray") and attr == "maketrans":
            return Native(_b_maketrans, "bytes.maketrans")
        if hasattr(o, "getattr"):
            return o.getattr(self, attr, node)
        if isinstance(o, list):
            return Native(lambda ev, a, k, n: _list_method(self, o, attr, a, n), "list." + attr)
        if isinstance(o, dict):
            return Native(lambda ev, a, k, n: _dict_method(self, o, attr, a, n), "dict." + attr)
        if isinstance(o, str) and attr == "format" and getattr(self.ev, "keep_fstrings", False):
            return Native(lambda ev, a, k, n: _brace_format(o, a, k), "str.format")
        raise AnalysisError("engine B: attribute %s of %r at %s:%d"
                            % (attr, o, self.mod.name, getattr(node, "lineno", 0)))

    def e_Call(self, e):
        if isinstance(e.func, ast.Name) and e.func.id == "super" and not e.args:
            raise AnalysisError("engine B: bare super()")
        if (isinstance(e.func, ast.Attribute) and isinstance(e.func.value, ast.Call)
                and isinstance(e.func.value.func, ast.Name) and e.func.value.func.id == "super"):
            if getattr(self.ev, "super_hook", None) is not None:
                f = self.ev.super_hook(self, e.func.attr, e)
            else:
                proxy = SuperProxy(self.cls, self.env.get("self"))
                f = self.getattr(proxy, e.func.attr, e)
        else:
            f = self.expr(e.func)
        args = []
        for a in e.args:
            if isinstance(a, ast.Starred):
                args.extend(list(self.expr(a.value)))
            else:
                args.append(self.expr(a))
        kwargs = {}
        for k in e.keywords:
            if k.arg is None:
                d = self.expr(k.value)
                if not (isinstance(d, dict) and all(isinstance(x, str) for x in d)):
                    raise AnalysisError("engine B: ** of something that is not a dict with string keys")
                kwargs.update(d)
                continue
            kwargs[k.arg] = self.expr(k.value)
        return self.ev.call(f, args, kwargs, e)


def _as_load(t):
    import copy

    t2 = copy.deepcopy(t)
    for n in ast.walk(t2):
        if hasattr(n, "ctx"):
            n.ctx = ast.Load()
    return t2


def _short(node):
    try:
        s = ast.unparse(node)
    except Exception:
        s = "?"
    return s if len(s) < 60 else s[:57] + "..."


def _dkey(k):
    if isinstance(k, Aff):
        kk = B.norm(k)
        if kk.is_const():
            return int(kk.c)
        raise AnalysisError("engine B: symbolic dictionary key")
    if isinstance(k, list):
        raise AnalysisError("engine B: unhashable dictionary key")
    return k


def _dict_method(fr, o, attr, args, node):
    if attr == "get":
        return o.get(_dkey(args[0]), args[1] if len(args) > 1 else None)
    if attr == "setdefault":
        return o.setdefault(_dkey(args[0]), args[1] if len(args) > 1 else None)
    if attr == "pop":
        if _dkey(args[0]) in o:
            return o.pop(_dkey(args[0]))
        if len(args) > 1:
            return args[1]
        raise PyRaise("KeyError", node)
    if attr == "clear":
        o.clear()
        return None
    if attr in ("keys", "values", "items"):
        return list(getattr(o, attr)())
    if attr == "copy":
        return dict(o)
    raise AnalysisError("engine B: dict method %s" % attr)


def _list_method(fr, o, attr, args, node):
    if attr == "append":
        o.append(args[0])
        return None
    if attr == "extend":
        o.extend(list(args[0]))
        return None
    if attr == "reverse":
        o.reverse()
        return None
    if attr == "copy":
        return list(o)
    # byte strings are lists of ints/forms in this interpreter: the bytes/bytearray methods that keep them so
    def byte_of(x):
        if isinstance(x, list) and len(x) == 1:
            x = x[0]
        if isinstance(x, Aff):
            c = B.const_of(x)
            x = int(c) if c is not None else x
        if isinstance(x, int) and not isinstance(x, bool):
            return x
        raise AnalysisError("engine B: list.%s with argument %r" % (attr, x))
    if attr in ("find", "index"):
        needle = byte_of(args[0])
        start = args[1] if len(args) > 1 else 0
        if isinstance(start, Aff):
            c = B.const_of(start)
            if c is None:
                raise AnalysisError("engine B: list.%s with a symbolic start" % attr)
            start = int(c)
        for i in range(max(0, start), len(o)):
            if fr.compare(ast.Eq(), o[i], needle, node):
                return i
        if attr == "find":
            return -1
        raise PyRaise("ValueError", node)
    if attr == "count":
        needle = byte_of(args[0])
        return sum(1 for x in o if fr.compare(ast.Eq(), x, needle, node))
    if attr == "translate":
        table = args[0]
        if not (isinstance(table, list) and len(table) == 256 and all(isinstance(x, int) for x in table)):
            raise AnalysisError("engine B: translate() with a table that is not a concrete 256-entry table")
        runs = []
        for x in range(256):
            d = table[x] - x
            if runs and runs[-1][2] == d:
                runs[-1][1] = x
            else:
                runs.append([x, x, d])
        out = []
        for v in o:
            if isinstance(v, int):
                out.append(table[v])
                continue
            for lo, hi, d in runs:
                if B.decide_ge0(Aff.of(v) - lo, "translate: value >= %d" % lo) and B.decide_ge0(Aff(hi) - Aff.of(v), "translate: value <= %d" % hi):
                    out.append(Aff.of(v) + d)
                    break
            else:
                raise B.DeadPath()
        return out
    if attr in ("ljust", "rjust"):
        width = args[0]
        if isinstance(width, Aff):
            c = B.const_of(width)
            if c is None:
                raise AnalysisError("engine B: list.%s with a symbolic width" % attr)
            width = int(c)
        fill = byte_of(args[1]) if len(args) > 1 else 0x20
        pad = [fill] * max(0, width - len(o))
        return list(o) + pad if attr == "ljust" else pad + list(o)
    if attr in ("lstrip", "rstrip", "strip"):
        chars = args[0] if args else [9, 10, 11, 12, 13, 32]
        if not (isinstance(chars, list) and all(isinstance(c, int) for c in chars)):
            raise AnalysisError("engine B: list.%s(%r)" % (attr, chars))
        out = list(o)

        def strippable(x):
            r = False
            for c in chars:
                if fr.compare(ast.Eq(), x, c, node):
                    r = True
                    break
            return r
        if attr in ("lstrip", "strip"):
            while out and strippable(out[0]):
                out.pop(0)
        if attr in ("rstrip", "strip"):
            while out and strippable(out[-1]):
                out.pop()
        return out
    raise AnalysisError("engine B: list method %s" % attr)


# ---------------------------------------------------------------- builtins
def _b_len(ev, args, kw, node):
    v = args[0]
    if hasattr(v, "length"):
        return v.length()
    if isinstance(v, (list, tuple, str, dict)):
        return len(v)
    raise AnalysisError("engine B: len(%r)" % (v,))


def _b_minmax(is_min):
    def f(ev, args, kw, node):
        if len(args) == 1 and isinstance(args[0], (list, tuple)):
            args = list(args[0])
        best = args[0]
        for x in args[1:]:
            if isinstance(best, int) and isinstance(x, int):
                best = min(best, x) if is_min else max(best, x)
                continue
            d = Aff.of(x) - Aff.of(best)  # x - best
            ge = B.decide_ge0(d, "%s@%d" % ("min" if is_min else "max", getattr(node, "lineno", 0)))
            if is_min:
                best = best if ge else x
            else:
                best = x if ge else best
        return best

    return f


def _b_int(ev, args, kw, node):
    v = args[0]
    if isinstance(v, TrueDiv):
        x, m = v.x, v.m
        if B.decide_ge0(x, "int(): dividend>=0 @%d" % getattr(node, "lineno", 0)):
            return B.divmod_const(x, m)[0]
        q, r = B.divmod_const(-Aff.of(x), m)
        return -q
    if isinstance(v, Aff) and type(v) is not Aff:
        return Aff(v.c, v.t)  # an int-like object (a subclass instance, a bool): int() gives the plain number
    if isinstance(v, (int, Aff)):
        return v
    raise AnalysisError("engine B: int(%r)" % (v,))


def _b_range(ev, args, kw, node):
    vals = []
    for a in args:
        if isinstance(a, Aff):
            a = B.norm(a)
            if not a.is_const():
                raise AnalysisError("engine B: range over a symbolic bound at line %d" % getattr(node, "lineno", 0))
            a = int(a.c)
        vals.append(a)
    return range(*vals)


def _b_bytes(ev, args, kw, node):
    if not args:
        return []
    v = args[0]
    if isinstance(v, int):
        return [0] * v
    if isinstance(v, (list, tuple, range)):
        return list(v)
    if hasattr(v, "to_bytes_like"):
        return v.to_bytes_like()
    raise AnalysisError("engine B: bytes(%r)" % (v,))


def _b_abs(ev, args, kw, node):
    v = args[0]
    if isinstance(v, int):
        return abs(v)
    return v if B.decide_ge0(v, "abs") else -Aff.of(v)


def _b_isinstance(ev, args, kw, node):
    o, c = args
    if isinstance(c, tuple):
        return any(_b_isinstance(ev, [o, x], kw, node) for x in c)
    if hasattr(o, "abstract_isinstance"):
        return o.abstract_isinstance(c)
    if isinstance(o, Obj) and isinstance(c, ClassRef):
        return any(x.node is c.node for x in ev.mro(o.cls))
    raise AnalysisError("engine B: isinstance")


def _b_sum(ev, args, kw, node):
    total = args[1] if len(args) > 1 else 0
    it = args[0]
    if isinstance(it, range):
        it = list(it)
    for x in it:
        total = (total + x) if isinstance(total, int) and isinstance(x, int) else Aff.of(total) + Aff.of(x)
    return total


def _b_zip(ev, args, kw, node):
    seqs = []
    for a in args:
        if isinstance(a, range):
            a = list(a)
        if not isinstance(a, (list, tuple)):
            raise AnalysisError("engine B: zip over %r" % (a,))
        seqs.append(list(a))
    return [tuple(t) for t in zip(*seqs)]


def _b_enumerate(ev, args, kw, node):
    a = args[0]
    if hasattr(a, "abstract_iter") and hasattr(a, "idx"):
        from .absbuf import BufIter
        return BufIter(a, True, args[1] if len(args) > 1 else kw.get("start", 0))
    if isinstance(a, range):
        a = list(a)
    if not isinstance(a, (list, tuple)):
        raise AnalysisError("engine B: enumerate over %r" % (a,))
    start = args[1] if len(args) > 1 else kw.get("start", 0)
    return [(i + start, x) for i, x in enumerate(a)]


def _b_reversed(ev, args, kw, node):
    a = args[0]
    if isinstance(a, range):
        a = list(a)
    if not isinstance(a, (list, tuple)):
        raise AnalysisError("engine B: reversed over %r" % (a,))
    return list(reversed(a))


def _b_divmod(ev, args, kw, node):
    a, b = args
    if isinstance(a, int) and isinstance(b, int):
        if b == 0:
            raise PyRaise("ZeroDivisionError", node)
        return divmod(a, b)
    bb = B.norm(Aff.of(b))
    if not bb.is_const() or bb.c <= 0:
        raise AnalysisError("engine B: divmod by a non-constant or non-positive value")
    return tuple(B.divmod_const(Aff.of(a), int(bb.c)))


def _b_maketrans(ev, args, kw, node):
    a, b = args
    if isinstance(a, range):
        a = list(a)
    if isinstance(b, range):
        b = list(b)
    if not (isinstance(a, list) and isinstance(b, list) and all(isinstance(x, int) for x in a + b)):
        raise AnalysisError("engine B: maketrans of non-constant arguments")
    if len(a) != len(b):
        raise PyRaise("ValueError", node)
    table = list(range(256))
    for x, y in zip(a, b):
        table[x] = y
    return table


def _b_anyall(is_any):
    def f(ev, args, kw, node):
        fr = Frame(ev, None, {})
        for x in args[0]:
            t = fr.truth(x)
            if is_any and t:
                return True
            if not is_any and not t:
                return False
        return not is_any
    return f


def _plain_number(v):
    """What the decimal presentation types print: the number, whatever the object's own __str__ / __format__."""
    return Aff(v.c, v.t) if isinstance(v, Aff) and type(v) is not Aff else v


def _text_parts(x):
    return list(x.parts) if isinstance(x, FStr) else [("text", x)]


def _percent_format(fmt, arg):
    """`fmt % arg` kept as the parts of an f-string: %d/%i print the decimal number, %s/%r the object's own text."""
    import re as _re
    args = list(arg) if isinstance(arg, (tuple, list)) else [arg]
    parts, pos, k = [], 0, 0
    for m in _re.finditer(r"%([-+ #0]*)(\d*)(?:\.\d+)?([a-zA-Z%])", fmt):
        if m.start() > pos:
            parts.append(("text", fmt[pos:m.start()]))
        pos = m.end()
        conv = m.group(3)
        if conv == "%":
            parts.append(("text", "%"))
            continue
        if k >= len(args) or m.group(1) or m.group(2):
            return Opaque("string-expr")
        v = args[k]
        k += 1
        if conv in "di":
            parts.append(("value", _plain_number(v)))
        elif conv in "sr":
            parts.append(("value", v))
        else:
            return Opaque("string-expr")
    if pos < len(fmt):
        parts.append(("text", fmt[pos:]))
    return FStr(parts) if k == len(args) else Opaque("string-expr")


def _brace_format(fmt, args, kw):
    """`fmt.format(*args)` kept as the parts of an f-string (auto-numbered or numbered fields; `:d` prints the number)."""
    import string
    parts, auto = [], 0
    try:
        fields = list(string.Formatter().parse(fmt))
    except ValueError:
        return Opaque("string-expr")
    for text, name, spec, conv in fields:
        if text:
            parts.append(("text", text))
        if name is None:
            continue
        if name == "":
            idx, auto = auto, auto + 1
        elif name.isdigit():
            idx = int(name)
        elif name in kw:
            idx = None
        else:
            return Opaque("string-expr")
        v = kw[name] if idx is None else (args[idx] if idx < len(args) else None)
        if v is None or conv not in (None, "s", "r") or spec not in ("", "d"):
            return Opaque("string-expr")
        parts.append(("value", _plain_number(v) if spec == "d" and conv is None else v))
    return FStr(parts)


def _b_str(ev, args, kw, node):
    if getattr(ev, "keep_fstrings", False) and len(args) == 1:
        return args[0] if isinstance(args[0], (str, FStr)) else FStr([("value", args[0])])
    return Opaque("str()")


BUILTINS = {
    "str": _b_str,
    "repr": _b_str,
    "sum": _b_sum,
    "zip": _b_zip,
    "enumerate": _b_enumerate,
    "reversed": _b_reversed,
    "divmod": _b_divmod,
    "any": _b_anyall(True),
    "all": _b_anyall(False),
    "len": _b_len,
    "min": _b_minmax(True),
    "max": _b_minmax(False),
    "int": _b_int,
    "range": _b_range,
    "bytes": _b_bytes,
    "bytearray": _b_bytes,
    "abs": _b_abs,
    "isinstance": _b_isinstance,
    "bool": lambda ev, a, k, n: Frame(ev, None, {}).truth(a[0]),
    "list": lambda ev, a, k, n: list(a[0]) if a else [],
    "tuple": lambda ev, a, k, n: tuple(a[0]) if a else (),
    "memoryview": lambda ev, a, k, n: a[0],
    "object": None,
}
