"""Regenerates /verif/MANIFEST.json from the table below (run: python -m sa.manifest_gen)."""
import json
import os

VERIF = os.path.dirname(os.path.dirname(os.path.abspath(__file__)))

# property -> (level category, level text, level note, technique, engine, design ref)
CLAIMS = {
    "C07": ("proof",
            "Every clause is discharged for the whole input interval by abstract interpretation of encode_number / "
            "decode_number (affine forms + div/mod identities, Fourier-Motzkin entailment): byte ranges, filler, "
            "decode == positional formula for all byte strings of length 0..6, decode(encode(n)[:k]) == n as an "
            "identity of affine forms on every path. A universal statement over 4e9 inputs, not a sample.",
            "Trusted: the engine under /verif/sa, CPython's ast, the reference formula in sa/refs/number_codec.py; "
            "assumes list/bytes indexing semantics of CPython.",
            "abstract interpretation (affine domain, div/mod identities, Fourier-Motzkin entailment) over the AST",
            "B", "DESIGN.md section 4, C07"),
}

NOT_YET = "check not built yet in this session (engine stage pending, see DESIGN.md section 8); no proxy is substituted"


def main():
    props = [json.loads(l)["id"] for l in open(os.path.join(VERIF, "properties.jsonl"))]
    checks = []
    for pid in props:
        if pid not in CLAIMS:
            continue
        cat, text, note, tech, engine, ref = CLAIMS[pid]
        checks.append({
            "property_id": pid,
            "quick_cmd": "./check %s --tier quick" % pid,
            "thorough_cmd": "./check %s --tier thorough" % pid,
            "evidence_file": "/verif/evidence/%s.json" % pid,
            "replay_cmd_template": "cat {path}",
            "engine": engine,
            "level_claimed": {"category": cat, "text": text, "design_ref": ref},
            "level_note": note,
            "technique": tech,
        })
    man = {
        "version": 1,
        "setup_cmd": "true",
        "hooks": {
            "guard": "EOLIB_VERIF",
            "enable": "none needed: every check reads /repo's working tree as syntax trees; no instrumentation exists",
            "baseline_off_cmd": "cd /repo && /venv/bin/python -m pytest -ra -q -p no:cacheprovider --timeout=900 "
                                "--continue-on-collection-errors",
            "source_commits": [],
            "add_only": True,
        },
        "engines": [
            {"name": "A", "path": "sa/index.py", "kind_free_text": "program index, call resolution, CFG/effect rules over the AST",
             "serves_properties": [p for p in props if p in CLAIMS and "A" in CLAIMS[p][4]]},
            {"name": "B", "path": "sa/affine.py", "kind_free_text": "affine abstract interpreter for numeric code (static, no solver)",
             "serves_properties": [p for p in props if p in CLAIMS and "B" in CLAIMS[p][4]]},
            {"name": "C", "path": "sa/genabs", "kind_free_text": "abstract interpretation of the code generator over a finite shape lattice + AST rules on the emitted skeleton",
             "serves_properties": [p for p in props if p in CLAIMS and "C" in CLAIMS[p][4]]},
            {"name": "D", "path": "sa/importsim.py", "kind_free_text": "import-binding simulation over package ASTs",
             "serves_properties": [p for p in props if p in CLAIMS and "D" in CLAIMS[p][4]]},
        ],
        "checks": checks,
        "not_applicable": [{"property_id": p, "reason": NOT_YET} for p in props if p not in CLAIMS],
        "notes": "Static analysis only: every verdict is computed from the syntax trees of /repo's working tree. "
                 "Exit 0 held / 1 VIOLATION / 2 ANALYSIS-ERROR (fail closed). See DESIGN.md.",
    }
    with open(os.path.join(VERIF, "MANIFEST.json"), "w") as f:
        json.dump(man, f, indent=1)
        f.write("\n")


if __name__ == "__main__":
    main()
