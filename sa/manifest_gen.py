"""Regenerates /verif/MANIFEST.json from the table below (run: python -m sa.manifest_gen)."""
import json
import os

VERIF = os.path.dirname(os.path.dirname(os.path.abspath(__file__)))

# property -> (level category, level text, level note, technique, engine, design ref)
CLAIMS = {
    "C06": ("other",
            "Decides the property's 'because' clause and the reader-side isolation facts on all paths: no in-range EO "
            "integer encoding contains 0xFF and the writer emits exactly that encoding; with sanitisation on no string "
            "write emits 0xFF from the string's bytes; in chunked mode no read advances past the current break and "
            "surplus reads return 0/empty without moving; next_chunk's post-state is a function of the chunk start only "
            "and lands just past the break; plus the whole C05 refinement. The two-run non-interference relation is "
            "argued from these, not machine-checked.",
            "Trusted: engines A/B and the C05/C07/C09 analyses it re-runs.",
            "abstract interpretation of writer, codec and reader (composition of per-path facts)",
            "A+B", "DESIGN.md section 4, C06"),
    "C07": ("proof",
            "Every clause is discharged for the whole input interval by abstract interpretation of encode_number / "
            "decode_number (affine forms + div/mod identities, Fourier-Motzkin entailment): byte ranges, filler, "
            "decode == positional formula for all byte strings of length 0..6, decode(encode(n)[:k]) == n as an "
            "identity of affine forms on every path. A universal statement over 4e9 inputs, not a sample.",
            "Trusted: the engine under /verif/sa, CPython's ast, the reference formula in sa/refs/number_codec.py; "
            "assumes list/bytes indexing semantics of CPython.",
            "abstract interpretation (affine domain, div/mod identities, Fourier-Motzkin entailment) over the AST",
            "B", "DESIGN.md section 4, C07"),
    "C08": ("proof",
            "Per-element transfer function of the string codec computed for all byte values, both flip states and all "
            "positions/lengths at once on an abstract buffer of symbolic length; both round trips are evaluated on that "
            "buffer (reversal, index and parity included) and must return the original element except for 0x7E; a "
            "def-use rule shows the flip schedule does not depend on buffer contents.",
            "Trusted: engine B, bytearray.reverse()/index-store semantics. Elements are integers in [0,255].",
            "abstract interpretation over an abstract buffer (generic element, affine domain) + def-use taint rule",
            "B", "DESIGN.md section 4, C08"),
    "C01": ("other",
            "Structural half of round-tripping, for all specs of the shape lattice and all values: abstract interpretation of "
            "the generator; on every emitted class the write grammar and the read grammar (extracted by data flow) are mirror "
            "images under the inverse table (a remaining/size element count only for elements of exactly that size), no emitted method reads an unbound name, the constructor takes exactly the "
            "declared fields and derives length fields from their referents, absent optionals are constructible, byte_size "
            "is the reader position delta; plus the primitive round trips (C04/C07/C08 re-run). Carries the open finding F3. "
            "Does NOT decide end-to-end value equality (wire-unambiguity side conditions, codec library).",
            "Trusted: engine C, inverse table in sa/genabs/refcheck.py, shape lattice as cover of the grammar.",
            "abstract interpretation of the generator + write/read grammar extraction and mirror comparison on emitted ASTs",
            "B+C", "DESIGN.md section 4, C01"),
    "C02": ("other",
            "Abstract interpretation of the generator over the shape lattice; the write grammar of every emitted serialize "
            "equals, token by token, the reference grammar computed from the abstract XML by an independent table of "
            "eo-protocol semantics (order, encodings incl. overrides, length minus offset, hardcoded/dummy values and guard, "
            "breaks, separating vs trailing delimiters, padded flag, sanitisation brackets, case arms); explicit boolean "
            "defaults are shapes of their own; family()/action() of every packet written by the abstractly executed generator "
            "return the members named by that packet's own attributes; the integer width table is checked on the emitter. "
            "Does NOT decide bytes for concrete values (composition with C04/C07/C08/C09).",
            "Trusted: engine C, sa/refs/wire_semantics.py.",
            "abstract interpretation of the generator + comparison of the extracted write grammar with a reference grammar",
            "A+C", "DESIGN.md section 4, C02"),
    "C03": ("other",
            "Abstract interpretation of the generator; the read grammar of every emitted deserialize equals the reading "
            "rules of the reference (loop forms from the element's fixed size / boundedness included), Optional values are "
            "tracked into the constructor, the result is built from what was read; the reader never raises except the "
            "documented negative-length ValueError and clips every read (C05 re-run), a number read as a truth value goes "
            "through a test with the truth table of != 0, padded strings are cut at the first "
            "0xFF (C04 reader side), unknown enum ordinals are preserved (C14). Carries the open finding F3. Does NOT decide "
            "termination for zero-size elements (degenerate).",
            "Trusted: engines B/C, sa/refs/wire_semantics.py, sa/refs/reader_model.py.",
            "abstract interpretation of the generator + read-grammar comparison + None-flow analysis + reader refinement",
            "A+B+C", "DESIGN.md section 4, C03"),
    "C04": ("other",
            "Compositional: (W) what every add_* appends and (R) what every get_* consumes/returns are computed by "
            "abstract interpretation of the real classes on every path; (M) for each documented API pair the reader's "
            "pipeline must be the mirror image of the writer's under the inverse table (k-byte prefix<->k-byte decode, "
            "0xFF padding<->cut at first 0xFF, encode_string<->decode_string with padding inside the encoded part, "
            "same codec); (N) the codec round trips of C07/C08 and the two-call write histories of C09 are re-run. "
            "Does NOT decide the cp1252 image claim (codec library).",
            "Trusted: engines A/B, inverse table in sa/props/c04.py; composition over call sequences rests on C05/C09.",
            "abstract interpretation of writer and reader + pipeline mirror comparison under an inverse table",
            "A+B", "DESIGN.md section 4, C04"),
    "C05": ("proof",
            "Per-operation refinement of the real EoReader class against the documented chunked-reading model: every "
            "public operation is interpreted on a symbolic state (any data length/contents, any position, both modes, "
            "cache set or unset, any non-negative arguments) satisfying an inductive invariant; results, bytes consumed, "
            "post-state, 'fresh independent reader over the clipped window' for slice, and in-bounds proofs for every "
            "buffer access are obligations on every path. Agreement per operation + inductive invariant = agreement on "
            "every history, slices of slices included.",
            "Trusted: engine B; sa/refs/reader_model.py; the first-0xFF search loop is recognised by a loop-form rule "
            "and modelled as the uninterpreted function FF; memoryview/bytearray copy semantics.",
            "abstract interpretation per operation vs reference transition system (refinement + inductive invariant)",
            "A+B", "DESIGN.md section 4, C05"),
    "C09": ("proof",
            "Every public add_* method of the real EoWriter is interpreted on an abstract writer (arbitrary earlier "
            "contents, every two-step history of the sanitisation mode, symbolic integer / string length / length "
            "argument / padded flag). On every path: raises iff the declared limit or length rule is violated, nothing "
            "is written before a raise, an accepted call appends exactly the declared width/length, the integer bytes "
            "(whatever the number of writes) are the prefix of encode_number, padding is 0xFF and added before encoding, the generic string byte is rewritten "
            "0xFF->0x79 exactly when the mode is on.",
            "Trusted: engine B + segmented buffers; cp1252/'replace' gives one byte per character; C08 for encode_string.",
            "abstract interpretation of the class over segmented abstract buffers (affine domain, path forking)",
            "B", "DESIGN.md section 4, C09"),
    "C10": ("proof",
            "Decides every clause for all inputs: flip_msb is an involution fixing 0 and 128 on all 256 values, "
            "length-preserving and element-local (abstract interpretation, bit operations as div/mod identities, translate "
            "tables as piecewise-affine runs); swap_multiples rejects negative and returns on zero before any mutation (all "
            "paths), and one generic iteration of its scanning loop, interpreted over a symbolic store under the run-counter "
            "hypothesis, meets obligations R0-R5 (counter inductive; stores only inside the scanned run of multiples; the "
            "iteration's effect is a set of pairwise disjoint transpositions or an exact slice reversal; indices in bounds; "
            "element-local multiple test), which by the theorem in DESIGN.md give length, multiset, fixed non-multiples and "
            "involution; interleave/deinterleave keep the length, their index schedule never reads the contents, and by "
            "closed-form summarisation of the weave loops over a symbolic length 2m+rho each is a total permutation of "
            "positions and deinterleave undoes interleave copy family by copy family on every path.",
            "Trusted: engine A/B and the two paper arguments in DESIGN.md (run theorem, family composition). Statement forms "
            "outside the summarisers' subset are an ANALYSIS-ERROR, not a verdict; a failed obligation is reported only with a "
            "concrete witness obtained by instantiating the extracted summary (a length for the weave, a multiple-pattern of "
            "at most 7 positions for the runs), otherwise exit 2.",
            "abstract interpretation over symbolic buffers/stores + closed-form loop summarisation (affine trip counts) + "
            "inductive run-counter invariant + def-use taint rules",
            "A+B", "DESIGN.md section 4, C10"),
    "C11": ("proof",
            "server_verification_hash and the published formula (C remainder written through floor-mod) are interpreted "
            "over one shared path state; their difference must be the zero form on every path, for the whole 3-byte "
            "challenge range; hash < 253^4 everywhere and hash >= 0 up to 11 092 003 by interval/FM bounds. "
            "Non-negativity for the last 107 documented challenges is NOT decided (stated in evidence).",
            "Trusted: engine B, sa/refs/verification_hash.py, Python floor-mod semantics.",
            "abstract interpretation (affine domain with uninterpreted products, shared memo) vs reference formula",
            "B", "DESIGN.md section 4, C11"),
    "C12": ("proof",
            "generate() of the three sequence-start classes interpreted with randrange as an arbitrary member of its "
            "range (obligation: range non-empty); value and component ranges by Fourier-Motzkin bounds; "
            "from_*_values(components).value - value is the zero form on every path. Covers every outcome of every draw.",
            "Trusted: engine B; random.randrange contract.",
            "abstract interpretation (affine domain, truncating-division identities, FM entailment)",
            "B", "DESIGN.md section 4, C12"),
    "C13": ("proof",
            "Per-operation refinement of PacketSequencer against a two-variable reference transition system on a symbolic "
            "state under one of two coupling relations (the integer field is the counter in 0..9, or counts freely with the "
            "counter = field mod 10), inductive invariant, and an ownership rule that nothing else stores the state; together: "
            "agreement on every history. Every concrete start class reports as .value the integer it was built with (any "
            "sign), and from_init_values / from_ping_values / from_value derive the value by the protocol's formula for "
            "arbitrary integers (zero form on every path). When no coupling works a violation is reported only with an interpreted request history that departs from "
            "start + (n mod 10), otherwise exit 2.",
            "Trusted: engine A/B, sa/refs/sequencer_model.py.",
            "abstract interpretation per operation vs reference model + who-may-write rule",
            "A+B", "DESIGN.md section 4, C13"),
    "C14": ("other",
            "Effect interpretation of ProtocolEnumMeta.__call__ (helpers inlined) over abstract objects -- the enum class with "
            "its member tables and the metaclass's shared containers, an arbitrary integer that is or is not a declared ordinal, "
            "the stdlib lookup as 'declared member token or ValueError', int.__new__ as a fresh recording object: on every path "
            "an undeclared ordinal never raises and yields int.__new__(cls, value) named Unrecognized(<value>) with _value_ = "
            "value; a declared ordinal yields the member token itself (a truthiness test of it forks, ordinal 0 being falsy); "
            "every super().__call__ binds against the running interpreter's signature; no member table is written and a shared "
            "table is keyed by the class; generated enums (files of the abstractly executed generator) are IntEnum classes "
            "with this metaclass and import both. Does NOT decide stdlib semantics (EnumType.__call__ behaviour, int "
            "equality/hash).",
            "Trusted: enum.py of the running interpreter, engines B and C. Attributes of the class outside the modelled ones "
            "give ANALYSIS-ERROR.",
            "abstract interpretation of one method over effect-recording objects + signature binding against parsed stdlib "
            "source + engine-C generated-file inspection",
            "B+C", "DESIGN.md section 4, C14"),
    "C15": ("proof",
            "The code generator is interpreted from its syntax trees over the lattice of instruction shapes x placements "
            "(abstract interpretation with symbolic spec text, the real CodeBlock included); every emitted "
            "serialize/deserialize, nested case classes included, must satisfy the S-mode typestate rule: entry mode read "
            "once before anything else, body inside try/finally whose last mode write restores the saved value, saved "
            "variable never reassigned, inner writes literal True/False and bracketed within one block; and the mode switches "
            "sit exactly where the reference puts the spec's chunked sections (S2, the 'consequently' clause). Induction over "
            "nesting gives the property for every spec composed of these shapes.",
            "Trusted: engine C evaluator (Python subset + native string models), the shape lattice as a cover of the "
            "instruction grammar, CPython ast for the skeleton.",
            "abstract interpretation of the generator over a finite shape lattice + typestate rule on emitted ASTs",
            "C", "DESIGN.md section 4, C15"),
    "C16": ("other",
            "Abstract interpretation of the generator; the guards of every emitted serialize (None guard, exact / padded / "
            "length-field-bounded length guard with bound max(type)+offset, isinstance / is-not-None case-data guards, each "
            "raising SerializationError) are extracted with the position of the write they dominate and must equal the "
            "reference guard table; integer range and string length errors are the writer's (C09 analyses re-run). Does NOT "
            "decide validity of array elements beyond the writer's checks.",
            "Trusted: engines B/C, guard table in sa/refs/wire_semantics.py.",
            "abstract interpretation of the generator + guard extraction/dominance comparison with a reference table",
            "B+C", "DESIGN.md section 4, C16"),
    "C17": ("other",
            "Must-reject analysis: the generator is interpreted over every ill-formed shape of the lattice (as classified by an "
            "independent oracle of the grammar's rules, sa/refs/grammar_rules.py) in every placement, over ordered pairs/triples "
            "of instruction groups for the context rules (through chunked and case scopes), and over ill-formed spec trees for "
            "the file-level rules; every evaluation path must end in an exception, and no except clause on the way to the "
            "caller of generate() swallows it. Each catalogue rule must be exercised (vacuity guard).",
            "Trusted: engine C, the oracle in sa/refs/grammar_rules.py, the shape/pair/tree families as a cover of the catalogue.",
            "abstract interpretation of the generator over ill-formed abstract specs (all paths must raise) + handler rule",
            "A+C", "DESIGN.md section 4, C17"),
    "C18": ("other",
            "Determinism: static rules on the generator (no nondeterministic source; every iteration over a set ends in an "
            "order-insensitive sink, sorted(), or a local list sorted before use, flow-sensitively; accumulators cleared in "
            "finally; indexing never resolves types) plus an abstract whole-program run of generate() over a 7-directory spec "
            "tree under four directory enumeration orders and two consecutive runs on one instance, into an output directory "
            "pre-populated with unknown contents: all succeed with identical output templates on every path; a second run on "
            "the same instance after the specification was edited writes what a fresh generator writes for the edited tree; "
            "in protocol.py every path of the main block to the generating call passes through the removal of the generated "
            "directory (must-pass-through); sorted() over a "
            "set never ties on its key, truncating sinks with explicit (utf-8) encoding, makedirs(exist_ok). Importability: every emitted class of the shape "
            "lattice compiles, binds/imports every name it uses from where it is defined, spec text inside string "
            "literals/docstrings is escaped; in the whole-program output every file compiles, every directory is a package, "
            "every import resolves, every package __init__ star-imports its modules. Does NOT decide success beyond the "
            "analysed shapes/sequences or undocumented directory layouts.",
            "Trusted: engines A/C (evaluator's native models of os.path/pathlib/html), shape lattice.",
            "abstract interpretation of the whole generator + AST rules on emitted files + static determinism rules",
            "A+C", "DESIGN.md section 4, C18"),
    "C19": ("proof",
            "Same abstract interpretation of the generator; on every emitted class of the lattice and of the whole-program run "
            "(packets included) the S-immut rule: fields private and "
            "assigned only in __init__, getter-only properties (no setter/deleter/__setattr__), byte_size set once on the "
            "fresh result, array parameters copied with tuple(), serialize neither assigns nor mutates the object; plus the "
            "runtime facts that EoReader returns copies (C05.R9) and EoWriter never adopts a caller's buffer (C09).",
            "Trusted: engine C/B; property-without-setter semantics of Python.",
            "abstract interpretation of the generator + structural rule on emitted ASTs + aliasing facts of reader/writer",
            "B+C", "DESIGN.md section 4, C19"),
    "C20": ("other",
            "Import-binding simulation: Python's import semantics executed abstractly over the ASTs of the static "
            "packages and of the package the generator writes, for a family of 44 representative spec trees (no cross "
            "reference, every single cross-directory reference direction, all safe directions at once) x two families of type "
            "names (sorting before / after packet_family, i.e. both star-import orders) and every possible first import; the final name->object maps must resolve every documented module path to that module and bind "
            "every public name and generated class to one object at home and at the top. Carries open known findings "
            "(F9: references into a packet directory from root/map).",
            "Trusted: engine D's model of import semantics (audited against CPython 3.12 during development); the "
            "rendering of generated modules as import lines + one class.",
            "abstract execution of import semantics over package ASTs (no code is run)",
            "D", "DESIGN.md section 4, C20"),
}

NOT_YET = "no check is registered for this property"


def main():
    props = [json.loads(l)["id"] for l in open(os.path.join(VERIF, "properties.jsonl"))]
    checks = []
    for pid in props:
        if pid not in CLAIMS:
            continue
        cat, text, note, tech, engine, ref = CLAIMS[pid]
        checks.append({
            "property_id": pid,
            "quick_cmd": "./check %s --tier quick" % pid,
            "thorough_cmd": "./check %s --tier thorough" % pid,
            "evidence_file": "/verif/evidence/%s.json" % pid,
            "replay_cmd_template": "cat {path}",
            "engine": engine,
            "level_claimed": {"category": cat, "text": text, "design_ref": ref},
            "level_note": note,
            "technique": tech,
        })
    man = {
        "version": 1,
        "setup_cmd": "true",
        "hooks": {
            "guard": "EOLIB_VERIF",
            "enable": "none needed: every check reads /repo's working tree as syntax trees; no instrumentation exists",
            "baseline_off_cmd": "cd /repo && /venv/bin/python -m pytest -ra -q -p no:cacheprovider --timeout=900 "
                                "--continue-on-collection-errors",
            "source_commits": [],
            "add_only": True,
        },
        "engines": [
            {"name": "A", "path": "sa/index.py", "kind_free_text": "program index, call resolution, CFG/effect rules over the AST",
             "serves_properties": [p for p in props if p in CLAIMS and "A" in CLAIMS[p][4]]},
            {"name": "B", "path": "sa/affine.py", "kind_free_text": "affine abstract interpreter for numeric code (static, no solver)",
             "serves_properties": [p for p in props if p in CLAIMS and "B" in CLAIMS[p][4]]},
            {"name": "C", "path": "sa/genabs", "kind_free_text": "abstract interpretation of the code generator over a finite shape lattice + AST rules on the emitted skeleton",
             "serves_properties": [p for p in props if p in CLAIMS and "C" in CLAIMS[p][4]]},
            {"name": "D", "path": "sa/importsim.py", "kind_free_text": "import-binding simulation over package ASTs",
             "serves_properties": [p for p in props if p in CLAIMS and "D" in CLAIMS[p][4]]},
        ],
        "checks": checks,
        "not_applicable": [{"property_id": p, "reason": NOT_YET} for p in props if p not in CLAIMS],
        "notes": "Static analysis only: every verdict is computed from the syntax trees of /repo's working tree. "
                 "Exit 0 held / 1 VIOLATION / 2 ANALYSIS-ERROR (fail closed). See DESIGN.md.",
    }
    with open(os.path.join(VERIF, "MANIFEST.json"), "w") as f:
        json.dump(man, f, indent=1)
        f.write("\n")


if __name__ == "__main__":
    main()
