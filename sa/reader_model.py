"""Abstract EoReader: the real class interpreted by engine B over abstract data.

Data is an immutable byte sequence of symbolic length L with uninterpreted contents.
`FF(c)` = least index >= c holding 0xFF, else L -- an uninterpreted function tied to the
implementation by a loop-form rule on the first-occurrence search loop.
"""
import ast

from . import affine as B
from .affine import Aff
from .core import AnalysisError
from .numeval import Frame, Native, NumEval, Obj, Opaque, PyRaise, _Break, _Continue, _Return

READER = "eolib.data.eo_reader.EoReader"
BREAK = 0xFF


class AbsData:
    """bytes / memoryview of symbolic length; a window [off, off+L) of some underlying storage."""

    def __init__(self, name="data", L=None, base=None, off=0):
        self.name = name
        self.L = B.fresh("len(%s)" % name, 0, None) if L is None else L
        self.base = base or self
        self.off = off  # offset of this window inside base
        self.reads = []

    def length(self):
        return self.L

    def ff(self, c):
        """FF(c): first break at or after c, else L.  Facts: FF(c) <= L, and c <= FF(c) when c <= L."""
        r = B.uninterp("FF[%s]" % self.name, [Aff.of(c)], None, None)
        key = ("ff-facts", id(self), B.norm(Aff.of(c)).key())
        if key not in B.cur().memo:
            B.cur().memo[key] = True
            B.assume_ge0(self.L - r)
            if B.prove_ge0(self.L - Aff.of(c)) is True:
                B.assume_ge0(r - Aff.of(c))
            else:
                # c > L: nothing to find
                pass
        return r

    def load_index(self, fr, k, node):
        lo = B.prove_ge0(Aff.of(k))
        hi = B.prove_ge0(self.L - 1 - Aff.of(k))
        self.reads.append(("index", k, lo is True and hi is True, getattr(node, "lineno", 0)))
        # axioms of FF: data[FF(c)] == 0xFF when FF(c) < len, and data[i] != 0xFF for c <= i < FF(c)
        for tag, fargs, extra, ff in list(B.cur().entries):
            if tag != "fn:FF[%s]" % self.name:
                continue
            if B.is_zero(Aff.of(k) - ff):
                if B.decide_ge0(self.L - 1 - ff, "FF(c) < len(data)"):
                    return BREAK
            elif B.prove_ge0(Aff.of(k) - fargs[0]) is True and B.prove_ge0(ff - 1 - Aff.of(k)) is True:
                v = B.uninterp("%s[]" % self.name, [Aff.of(k)], 0, 255)
                B.assume_ge0(Aff(BREAK - 1) - v)
                return v
            elif B.prove_ge0(Aff.of(k) - fargs[0]) is True and B.prove_ge0(ff - Aff.of(k)) is True:
                # c <= k <= FF(c): either k is the first break (or the end), or it lies before it
                if B.decide_eq0(Aff.of(k) - ff, "index is the first break"):
                    if B.decide_ge0(self.L - 1 - ff, "FF(c) < len(data)"):
                        return BREAK
                else:
                    v = B.uninterp("%s[]" % self.name, [Aff.of(k)], 0, 255)
                    B.assume_ge0(Aff(BREAK - 1) - v)
                    return v
        return B.uninterp("%s[]" % self.name, [Aff.of(k)], 0, 255)

    def load_slice(self, fr, lo, hi, node):
        lo = 0 if lo is None else lo
        hi = self.L if hi is None else hi
        inb = (B.prove_ge0(Aff.of(lo)) is True and B.prove_ge0(Aff.of(hi) - Aff.of(lo)) is True
               and B.prove_ge0(self.L - Aff.of(hi)) is True)
        self.reads.append(("slice", lo, hi, inb, getattr(node, "lineno", 0)))
        if not inb:
            # Python clamps; model the clamping explicitly so that the result is still exact
            lo = _clamp(lo, self.L)
            hi = _clamp(hi, self.L)
            if not B.decide_ge0(Aff.of(hi) - Aff.of(lo), "slice: stop >= start"):
                hi = lo
        return DataView(self, lo, hi)


def _clamp(x, L):
    if not B.decide_ge0(Aff.of(x), "slice bound >= 0"):
        # negative indices count from the end
        x = Aff.of(x) + L
        if not B.decide_ge0(x, "slice bound >= -len"):
            return 0
    if B.decide_ge0(L - Aff.of(x), "slice bound <= len"):
        return x
    return L


class DataView:
    """data[lo:hi] with 0 <= lo <= hi <= len(data): a shared view (memoryview slice) or, once
    passed to bytearray(), an independent copy."""

    def __init__(self, data, lo, hi, copied=False, ops=None):
        self.data, self.lo, self.hi, self.copied = data, lo, hi, copied
        self.ops = list(ops or [])

    def length(self):
        return Aff.of(self.hi) - Aff.of(self.lo)

    def getattr(self, fr, attr, node):
        if attr == "decode":
            def dec(ev, a, k, n):
                codec = tuple(x for x in list(a) + [k.get("encoding"), k.get("errors")] if isinstance(x, str))
                return StrResult(self, codec)
            return Native(dec, "bytes.decode")
        if attr in ("find", "index"):
            def find(ev, a, k, n):
                needle = a[0]
                if isinstance(needle, list) and len(needle) == 1:
                    needle = needle[0]
                r = B.uninterp("find[%r,%r,%r]" % (B.norm(Aff.of(self.lo)), B.norm(Aff.of(self.hi)), needle), [], -1, None)
                B.assume_ge0(self.length() - 1 - r)
                self.ops.append(("find", needle, attr))
                self.found = (needle, r, attr)
                return r
            return Native(find, "bytearray.find")
        if attr == "rfind" or attr in ("rstrip", "lstrip", "strip", "split", "rsplit", "rindex", "partition", "rpartition", "replace", "removeprefix",
                                       "removesuffix", "translate", "lower", "upper", "swapcase", "title", "capitalize", "expandtabs", "zfill",
                                       "ljust", "rjust", "center"):
            def other(ev, a, k, n):
                self.ops.append((attr, tuple(repr(x) for x in a)))
                return DataView(self.data, self.lo, self.hi, True, self.ops) if attr != "rfind" else B.fresh("rfind", -1, None)
            return Native(other, "bytearray." + attr)
        if attr == "reverse":
            def rev(ev, a, k, n):
                self.ops.append(("reverse",))
            return Native(rev, "bytearray.reverse")
        raise AnalysisError("engine B: %s on a data view" % attr)

    def load_slice(self, fr, lo, hi, node):
        # array[:k] as used to cut padding
        cut = ("cut", None if lo is None else B.norm(Aff.of(lo)), None if hi is None else B.norm(Aff.of(hi)))
        f = getattr(self, "found", None)
        if f is not None and lo is None and hi is not None and B.is_zero(Aff.of(hi) - f[1]):
            cut = ("cut-at-first", f[0], f[2])
        v = DataView(self.data, self.lo, self.hi, True, self.ops + [cut])
        if f is not None:
            v.found = f
        return v

    def load_index(self, fr, k, node):
        return self.data.load_index(fr, Aff.of(self.lo) + Aff.of(k), node)


class DecodedNumber(tuple):
    """decode_number(view): an integer about which nothing is known; tests on it fork."""

    def compare(self, fr, op, other, node):
        return B.cur().choose("decoded number %s %r @%d" % (type(op).__name__, other if isinstance(other, int) else "?", getattr(node, "lineno", 0)))

    def truth(self, fr, node):
        return B.cur().choose("decoded number is non-zero @%d" % getattr(node, "lineno", 0))


class StrResult:
    def __init__(self, view, codec):
        self.view, self.codec = view, codec


class SearchRange:
    """range(lo, hi) over abstract data: summarised as a first-occurrence search (see search_loop)."""

    def __init__(self, lo, hi, world):
        self.lo, self.hi, self.world = lo, hi, world

    def abstract_iter(self, fr, st):
        if not isinstance(st.target, ast.Name):
            raise AnalysisError("engine B: loop target at line %d" % st.lineno)
        search_loop(self.world, fr, st, st.target.id, Aff.of(self.lo), lambda k: B.decide_ge0(Aff.of(self.hi) - 1 - k, "range not exhausted @%d" % st.lineno),
                    implicit_step=True)


def _loop_data(fr, body):
    found = []
    for stmt in body:
        for n in ast.walk(stmt):
            if isinstance(n, ast.Subscript) and not isinstance(n.slice, ast.Slice) and isinstance(n.value, (ast.Name, ast.Attribute)):
                try:
                    v = fr.expr(n.value)
                except AnalysisError:
                    continue
                if isinstance(v, AbsData) and all(v is not x for x in found):
                    found.append(v)
    return found


def search_loop(world, fr, st, ivar, i0, test_at, implicit_step, depth=0):
    """Summary of a loop that walks an index upwards by one over abstract data and may leave at a break byte.

    Hypothesis at the head of a generic iteration k >= i0: no 0xFF in [i0, k), i.e. FF(i0) >= k.  It holds at k = i0 and
    is re-proved for k+1 on every path through the body that stays in the loop (so the loop really is the
    first-occurrence search; any other carried state or step is refused).  Exits: by the test, at the k where it first
    fails; by break/return inside iteration k.  Paths that stay in the loop are dropped: the generic k stands for them."""
    datas = _loop_data(fr, st.body)
    if len(datas) != 1:
        raise AnalysisError("engine B: loop at line %d reads %d abstract data objects by index; only a search over one is summarised"
                            % (st.lineno, len(datas)))
    data = datas[0]
    # the first test, at i0
    fr.env[ivar] = i0
    if not test_at(i0):
        if implicit_step:
            fr.env.pop(ivar, None)
        fr.block(st.orelse)
        return
    if B.prove_ge0(data.L - 1 - i0) is not True or B.prove_ge0(i0) is not True:
        raise AnalysisError("engine B: the test of the loop at line %d does not keep the index inside the data" % st.lineno)
    world.search_loops += 1
    ff = data.ff(i0)
    B.assume_ge0(ff - i0)
    k = B.fresh("k@%d" % st.lineno, 0, None)
    B.assume_ge0(k - i0)
    B.assume_ge0(ff - k)
    fr.env[ivar] = k
    if not test_at(k):
        # left by the test at k: the previous iteration passed it (k > i0 because the first test passed)
        B.assume_ge0(k - i0 - 1)
        fr.env[ivar] = k - 1
        if not test_at(k - 1):
            raise B.DeadPath()
        fr.env[ivar] = (k - 1) if implicit_step else k
        fr.block(st.orelse)
        return
    before = dict(fr.env)
    try:
        fr.block(st.body)
    except _Break:
        return
    except _Continue:
        pass
    nxt = fr.env.get(ivar)
    if implicit_step:
        nxt = k + 1 if isinstance(nxt, Aff) and B.is_zero(nxt - k) else None
    if not (isinstance(nxt, Aff) and B.is_zero(nxt - k - 1)):
        raise AnalysisError("engine B: the loop at line %d does not advance its index by exactly one" % st.lineno)
    for name, v in fr.env.items():
        if name == ivar:
            continue
        old = before.get(name, before)
        same = v is old or (isinstance(v, (int, Aff)) and isinstance(old, (int, Aff)) and not isinstance(v, bool) and not isinstance(old, bool)
                            and B.is_zero(Aff.of(v) - Aff.of(old))) or (isinstance(v, bool) and isinstance(old, bool) and v == old)
        if not same and name in before:
            raise AnalysisError("engine B: the loop at line %d carries state in %s besides its index" % (st.lineno, name))
    if B.prove_ge0(ff - k - 1) is not True:
        # an iteration that stays in the loop although its byte may be the first break
        if not B.decide_eq0(k - ff, "the loop walks past the first break"):
            raise B.DeadPath()  # k < FF: the hypothesis holds at k+1, covered by the generic iteration
        if depth >= 2:
            raise B.Truncated("loop at line %d walks past break bytes repeatedly" % st.lineno)
        # exactly at the first break and still looping: the rest of the loop is the same search from k+1
        return search_loop(world, fr, st, ivar, k + 1, test_at, implicit_step, depth + 1)
    raise B.DeadPath()  # covered by the generic iteration


class ReaderWorld:
    def __init__(self, index):
        self.index = index
        self.search_loops = 0
        self.calls = []
        self.ev = NumEval(index, natives={"range": self._range, "bytearray": self._bytearray, "memoryview": self._memoryview,
                                          "bytes": self._bytes,
                                          "first_break": lambda ev, a, k, n: a[0].ff(a[1])})
        self.ev.on_call = self._on_call
        self.ev.while_hook = self._while
        self.m, self.cls = index.klass(READER)

    def _while(self, fr, st):
        """`while i < n: ... data[i] ... i += 1`: the search summary; any other while loop is unrolled as usual."""
        if not _loop_data(fr, st.body):
            return False
        steps = [x for x in st.body if isinstance(x, ast.AugAssign) and isinstance(x.target, ast.Name) and isinstance(x.op, ast.Add)
                 and isinstance(x.value, ast.Constant) and x.value.value == 1]
        if len(steps) != 1 or not isinstance(fr.env.get(steps[0].target.id), (int, Aff)):
            raise AnalysisError("engine B: while loop over abstract data at line %d without a single `i += 1` step" % st.lineno)
        ivar = steps[0].target.id

        def test_at(k):
            return fr.truth(fr.expr(st.test), st.test)
        search_loop(self, fr, st, ivar, Aff.of(fr.env[ivar]), test_at, implicit_step=False)
        return True

    # ---- natives
    def _range(self, ev, args, kw, node):
        vals = []
        sym = False
        for a in args:
            if isinstance(a, Aff):
                a2 = B.norm(a)
                if a2.is_const():
                    a = int(a2.c)
                else:
                    sym = True
            vals.append(a)
        if not sym:
            return range(*vals)
        if len(vals) == 1:
            vals = [0] + vals
        if len(vals) != 2:
            raise AnalysisError("engine B: stepped symbolic range")
        return SearchRange(vals[0], vals[1], self)

    def _bytearray(self, ev, args, kw, node):
        if args and isinstance(args[0], DataView):
            v = args[0]
            return DataView(v.data, v.lo, v.hi, True, v.ops)
        if args and isinstance(args[0], list):
            return list(args[0])
        raise AnalysisError("engine B: bytearray(%r) in the reader" % (args,))

    def _bytes(self, ev, args, kw, node):
        if args and isinstance(args[0], list):
            return list(args[0])
        return self._bytearray(ev, args, kw, node)

    def _memoryview(self, ev, args, kw, node):
        return args[0]

    def _on_call(self, f, args, kwargs):
        mod = f.mod.name
        if mod == "eolib.data.number_encoding_utils" and f.node.name == "decode_number":
            self.calls.append(("decode_number", args[0]))
            return DecodedNumber(("decode_number", args[0]))
        if mod == "eolib.data.string_encoding_utils" and f.node.name in ("decode_string", "encode_string"):
            if isinstance(args[0], DataView):
                args[0].ops.append((f.node.name,))
            self.calls.append((f.node.name, args[0]))
            return None
        return NotImplemented

    # ---- building readers
    def new_reader(self, data):
        return self.ev.instantiate(READER, [data])

    def fields(self, r):
        return r.d

    def prop(self, r, name):
        return Frame(self.ev, self.m, {}).getattr(r, name)

    def call(self, r, method, args, kwargs=None):
        fr = Frame(self.ev, self.m, {})
        f = fr.getattr(r, method)
        try:
            return ("ok", self.ev.call(f, list(args), dict(kwargs or {})))
        except PyRaise as e:
            return ("raise", e.exc_name)

    def set_mode(self, r, b):
        cls = self.ev.lookup_global(self.m, "EoReader")
        setter = self.ev.find_method(cls, "chunked_reading_mode", "setter")
        if setter is None:
            raise AnalysisError("anchor vanished: EoReader.chunked_reading_mode setter")
        self.ev.call(setter, [r, b], {})
