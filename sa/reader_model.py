"""Abstract EoReader: the real class interpreted by engine B over abstract data.

Data is an immutable byte sequence of symbolic length L with uninterpreted contents.
`FF(c)` = least index >= c holding 0xFF, else L -- an uninterpreted function tied to the
implementation by a loop-form rule on the first-occurrence search loop.
"""
import ast

from . import affine as B
from .affine import Aff
from .core import AnalysisError
from .numeval import Frame, Native, NumEval, Obj, Opaque, PyRaise, _Return

READER = "eolib.data.eo_reader.EoReader"
BREAK = 0xFF


class AbsData:
    """bytes / memoryview of symbolic length; a window [off, off+L) of some underlying storage."""

    def __init__(self, name="data", L=None, base=None, off=0):
        self.name = name
        self.L = B.fresh("len(%s)" % name, 0, None) if L is None else L
        self.base = base or self
        self.off = off  # offset of this window inside base
        self.reads = []

    def length(self):
        return self.L

    def ff(self, c):
        """FF(c): first break at or after c, else L.  Facts: FF(c) <= L, and c <= FF(c) when c <= L."""
        r = B.uninterp("FF[%s]" % self.name, [Aff.of(c)], None, None)
        key = ("ff-facts", id(self), B.norm(Aff.of(c)).key())
        if key not in B.cur().memo:
            B.cur().memo[key] = True
            B.assume_ge0(self.L - r)
            if B.prove_ge0(self.L - Aff.of(c)) is True:
                B.assume_ge0(r - Aff.of(c))
            else:
                # c > L: nothing to find
                pass
        return r

    def load_index(self, fr, k, node):
        lo = B.prove_ge0(Aff.of(k))
        hi = B.prove_ge0(self.L - 1 - Aff.of(k))
        self.reads.append(("index", k, lo is True and hi is True, getattr(node, "lineno", 0)))
        # axioms of FF: data[FF(c)] == 0xFF when FF(c) < len, and data[i] != 0xFF for c <= i < FF(c)
        for tag, fargs, extra, ff in list(B.cur().entries):
            if tag != "fn:FF[%s]" % self.name:
                continue
            if B.is_zero(Aff.of(k) - ff):
                if B.decide_ge0(self.L - 1 - ff, "FF(c) < len(data)"):
                    return BREAK
            elif B.prove_ge0(Aff.of(k) - fargs[0]) is True and B.prove_ge0(ff - 1 - Aff.of(k)) is True:
                v = B.uninterp("%s[]" % self.name, [Aff.of(k)], 0, 255)
                B.assume_ge0(Aff(BREAK - 1) - v)
                return v
        return B.uninterp("%s[]" % self.name, [Aff.of(k)], 0, 255)

    def load_slice(self, fr, lo, hi, node):
        lo = 0 if lo is None else lo
        hi = self.L if hi is None else hi
        inb = (B.prove_ge0(Aff.of(lo)) is True and B.prove_ge0(Aff.of(hi) - Aff.of(lo)) is True
               and B.prove_ge0(self.L - Aff.of(hi)) is True)
        self.reads.append(("slice", lo, hi, inb, getattr(node, "lineno", 0)))
        if not inb:
            # Python clamps; model the clamping explicitly so that the result is still exact
            lo = _clamp(lo, self.L)
            hi = _clamp(hi, self.L)
            if not B.decide_ge0(Aff.of(hi) - Aff.of(lo), "slice: stop >= start"):
                hi = lo
        return DataView(self, lo, hi)


def _clamp(x, L):
    if not B.decide_ge0(Aff.of(x), "slice bound >= 0"):
        # negative indices count from the end
        x = Aff.of(x) + L
        if not B.decide_ge0(x, "slice bound >= -len"):
            return 0
    if B.decide_ge0(L - Aff.of(x), "slice bound <= len"):
        return x
    return L


class DataView:
    """data[lo:hi] with 0 <= lo <= hi <= len(data): a shared view (memoryview slice) or, once
    passed to bytearray(), an independent copy."""

    def __init__(self, data, lo, hi, copied=False, ops=None):
        self.data, self.lo, self.hi, self.copied = data, lo, hi, copied
        self.ops = list(ops or [])

    def length(self):
        return Aff.of(self.hi) - Aff.of(self.lo)

    def getattr(self, fr, attr, node):
        if attr == "decode":
            def dec(ev, a, k, n):
                codec = tuple(x for x in list(a) + [k.get("encoding"), k.get("errors")] if isinstance(x, str))
                return StrResult(self, codec)
            return Native(dec, "bytes.decode")
        if attr in ("find", "index"):
            def find(ev, a, k, n):
                needle = a[0]
                if isinstance(needle, list) and len(needle) == 1:
                    needle = needle[0]
                r = B.uninterp("find[%r,%r,%r]" % (B.norm(Aff.of(self.lo)), B.norm(Aff.of(self.hi)), needle), [], -1, None)
                B.assume_ge0(self.length() - 1 - r)
                self.ops.append(("find", needle, attr))
                self.found = (needle, r, attr)
                return r
            return Native(find, "bytearray.find")
        if attr == "rfind" or attr in ("rstrip", "strip", "split", "rindex", "partition", "rpartition", "replace"):
            def other(ev, a, k, n):
                self.ops.append((attr, tuple(repr(x) for x in a)))
                return DataView(self.data, self.lo, self.hi, True, self.ops) if attr != "rfind" else B.fresh("rfind", -1, None)
            return Native(other, "bytearray." + attr)
        if attr == "reverse":
            def rev(ev, a, k, n):
                self.ops.append(("reverse",))
            return Native(rev, "bytearray.reverse")
        raise AnalysisError("engine B: %s on a data view" % attr)

    def load_slice(self, fr, lo, hi, node):
        # array[:k] as used to cut padding
        cut = ("cut", None if lo is None else B.norm(Aff.of(lo)), None if hi is None else B.norm(Aff.of(hi)))
        f = getattr(self, "found", None)
        if f is not None and lo is None and hi is not None and B.is_zero(Aff.of(hi) - f[1]):
            cut = ("cut-at-first", f[0], f[2])
        v = DataView(self.data, self.lo, self.hi, True, self.ops + [cut])
        if f is not None:
            v.found = f
        return v

    def load_index(self, fr, k, node):
        return self.data.load_index(fr, Aff.of(self.lo) + Aff.of(k), node)


class StrResult:
    def __init__(self, view, codec):
        self.view, self.codec = view, codec


class SearchRange:
    """range(lo, hi) over abstract data: only the first-occurrence search loop is understood."""

    def __init__(self, lo, hi, world):
        self.lo, self.hi, self.world = lo, hi, world

    def abstract_iter(self, fr, st):
        # for i in range(c, len(data)):  if data[i] == 0xFF: return i
        ok = (isinstance(st.target, ast.Name) and len(st.body) == 1 and isinstance(st.body[0], ast.If)
              and not st.body[0].orelse and not st.orelse and len(st.body[0].body) == 1
              and isinstance(st.body[0].body[0], ast.Return) and isinstance(st.body[0].body[0].value, ast.Name)
              and st.body[0].body[0].value.id == st.target.id)
        test = st.body[0].test if ok else None
        data = None
        if ok and isinstance(test, ast.Compare) and len(test.ops) == 1 and isinstance(test.ops[0], ast.Eq):
            sides = [test.left, test.comparators[0]]
            sub = [s for s in sides if isinstance(s, ast.Subscript)]
            oth = [s for s in sides if not isinstance(s, ast.Subscript)]
            if len(sub) == 1 and len(oth) == 1 and isinstance(sub[0].slice, ast.Name) and sub[0].slice.id == st.target.id:
                data = fr.expr(sub[0].value)
                val = fr.expr(oth[0])
                if not (isinstance(data, AbsData) and val == BREAK):
                    data = None
        if data is None or B.is_zero(Aff.of(self.hi) - data.L) is not True:
            raise AnalysisError("engine B: loop over the data at line %d is not the first-0xFF search "
                                "`for i in range(c, len(data)): if data[i] == 0xFF: return i`" % st.lineno)
        self.world.search_loops += 1
        ff = data.ff(self.lo)
        # found before the end: return FF(c); otherwise fall through with FF(c) == len(data)
        if B.decide_ge0(data.L - 1 - ff, "break found before end of data @%d" % st.lineno):
            raise _Return(ff)
        B.assume_eq0(ff - data.L)


class ReaderWorld:
    def __init__(self, index):
        self.index = index
        self.search_loops = 0
        self.calls = []
        self.ev = NumEval(index, natives={"range": self._range, "bytearray": self._bytearray, "memoryview": self._memoryview,
                                          "bytes": self._bytes,
                                          "first_break": lambda ev, a, k, n: a[0].ff(a[1])})
        self.ev.on_call = self._on_call
        self.m, self.cls = index.klass(READER)

    # ---- natives
    def _range(self, ev, args, kw, node):
        vals = []
        sym = False
        for a in args:
            if isinstance(a, Aff):
                a2 = B.norm(a)
                if a2.is_const():
                    a = int(a2.c)
                else:
                    sym = True
            vals.append(a)
        if not sym:
            return range(*vals)
        if len(vals) == 1:
            vals = [0] + vals
        if len(vals) != 2:
            raise AnalysisError("engine B: stepped symbolic range")
        return SearchRange(vals[0], vals[1], self)

    def _bytearray(self, ev, args, kw, node):
        if args and isinstance(args[0], DataView):
            v = args[0]
            return DataView(v.data, v.lo, v.hi, True, v.ops)
        if args and isinstance(args[0], list):
            return list(args[0])
        raise AnalysisError("engine B: bytearray(%r) in the reader" % (args,))

    def _bytes(self, ev, args, kw, node):
        if args and isinstance(args[0], list):
            return list(args[0])
        return self._bytearray(ev, args, kw, node)

    def _memoryview(self, ev, args, kw, node):
        return args[0]

    def _on_call(self, f, args, kwargs):
        mod = f.mod.name
        if mod == "eolib.data.number_encoding_utils" and f.node.name == "decode_number":
            self.calls.append(("decode_number", args[0]))
            return ("decode_number", args[0])
        if mod == "eolib.data.string_encoding_utils" and f.node.name in ("decode_string", "encode_string"):
            if isinstance(args[0], DataView):
                args[0].ops.append((f.node.name,))
            self.calls.append((f.node.name, args[0]))
            return None
        return NotImplemented

    # ---- building readers
    def new_reader(self, data):
        return self.ev.instantiate(READER, [data])

    def fields(self, r):
        return r.d

    def prop(self, r, name):
        return Frame(self.ev, self.m, {}).getattr(r, name)

    def call(self, r, method, args, kwargs=None):
        fr = Frame(self.ev, self.m, {})
        f = fr.getattr(r, method)
        try:
            return ("ok", self.ev.call(f, list(args), dict(kwargs or {})))
        except PyRaise as e:
            return ("raise", e.exc_name)

    def set_mode(self, r, b):
        cls = self.ev.lookup_global(self.m, "EoReader")
        setter = self.ev.find_method(cls, "chunked_reading_mode", "setter")
        if setter is None:
            raise AnalysisError("anchor vanished: EoReader.chunked_reading_mode setter")
        self.ev.call(setter, [r, b], {})
